//go:build verif

//verif:dir logic/preference-func/weighted-sum
package weighted_sum

import (
	"math"

	"github.com/Azbesciak/RealDecisionMaker/lib/model"
	vh "github.com/Azbesciak/RealDecisionMaker/lib/zz_vh"
	rt "github.com/Azbesciak/RealDecisionMaker/lib/zz_verifrt"
)

//verif:bounds C03 HC03_wsum: K<=3 (quick) / K<=4 (thorough) criteria, each gain or cost, A<=2 alternatives, weights and values free reals (weights in [-4,4]); parameters decoded from the JSON-shaped map through ParseParams (mapstructure model)
//verif:outside C03: rounding error of the float evaluation itself (REAL mode: the formula is compared over the reals, the statement's "up to"); the post-bias variant is checked by the pipeline harness of C07

//verif:harness HC03_wsum mode=REAL reach=cost,gain
func HC03_wsum() {
	K := rt.IntRange("K", 1, rt.Pick(3, 4))
	crit := vh.Criteria(K, "")
	known := vh.Alternatives("", vh.AltIds[:2], crit)
	w := map[string]interface{}{}
	anyNotOne := false
	for _, c := range crit {
		x := rt.FloatIn("w."+c.Id, -4, 4)
		w[c.Id] = x
		anyNotOne = rt.Or(anyNotOne, x != 1)
		if c.Type == model.Cost {
			rt.Reach("cost")
		} else {
			rt.Reach("gain")
		}
	}
	rt.KnownFinding("KF_C03_weighted_sum_ignores_weights", anyNotOne)
	dm := &model.DecisionMaker{PreferenceFunction: "weightedSum", KnownAlternatives: known, ChoseToMake: []string{"b", "a"}, Criteria: crit,
		MethodParameters: map[string]interface{}{"weights": w}}
	f := &WeightedSumPreferenceFunc{}
	dmp := vh.Params(known, dm.ChoseToMake, crit, f.ParseParams(dm))
	r := f.Evaluate(dmp)
	vh.WellFormed("C03.wsum.wellformed", r, dm.ChoseToMake)
	for i := range *r {
		a := vh.FindAlt(known, (*r)[i].Alternative.Id)
		ref := 0.0
		for ci := range crit {
			c := crit[ci]
			ref += w[c.Id].(float64) * vh.Signed(&c, a.Criteria[c.Id])
		}
		// the aggregate before the API's rounding, from the same exported function Evaluate uses
		u := WeightedSum(*a, *dmp.MethodParameters.(weightedSumParams).weightedCriteria).Value()
		rt.Assert("C03.wsum.value-is-weighted-sum", u == ref)
		rt.Assert("C03.wsum.reported-is-rounded-aggregate", (*r)[i].Value() == math.Round(u*1e8)/1e8)
		rt.Observe("wsum."+a.Id, (*r)[i].Value())
	}
}
