package sym

import (
	"fmt"
	"go/types"
	"strings"

	"gosym/smt"

	"golang.org/x/tools/go/ssa"
)

// Model of github.com/mitchellh/mapstructure v1.1.2 Decode with its default configuration
// (no hooks, strict typing, TagName "mapstructure", ZeroFields false), written against the
// engine's values. It follows the library function by function (decode, decodeBasic,
// decodeStruct[FromMap], decodeMap[FromMap|FromStruct], decodePtr, decodeSlice, ...).
// Outside the model: WeaklyTypedInput, decode hooks, squash tags, json.Number, arrays,
// two source keys that differ only in case (the library itself iterates a Go map there).

type msPlace struct {
	p Pointer
	t types.Type
	settable bool
}

type msErr struct{ msg string }

func kindOf(t types.Type) string {
	switch u := t.Underlying().(type) {
	case *types.Basic:
		switch {
		case u.Info()&types.IsBoolean != 0:
			return "bool"
		case u.Info()&types.IsString != 0:
			return "string"
		case u.Info()&types.IsUnsigned != 0:
			return "uint"
		case u.Info()&types.IsInteger != 0:
			return "int"
		case u.Info()&types.IsFloat != 0:
			return "float"
		}
	case *types.Struct:
		return "struct"
	case *types.Map:
		return "map"
	case *types.Pointer:
		return "ptr"
	case *types.Slice:
		return "slice"
	case *types.Array:
		return "array"
	case *types.Interface:
		return "interface"
	case *types.Signature:
		return "func"
	}
	return "invalid"
}

// toData boxes a value of static type t the way reflect's Value.Interface() does.
func toData(v Value, t types.Type) Iface {
	if _, ok := t.Underlying().(*types.Interface); ok {
		if i, ok := v.(Iface); ok {
			return i
		}
		return Iface{}
	}
	return Iface{T: t, V: v}
}

func (in *Interp) msLoad(pl msPlace) Value { return loadPath(pl.p.O.V, pl.p.Path) }

func (in *Interp) msStore(pl msPlace, v Value, site ssa.Instruction) {
	in.store(pl.p, v, site, nil)
	if in.trackWrites && (pl.p.O.Epoch < in.epoch || pl.p.O.Owner != 0) {
		in.Writes = append(in.Writes, WriteEvent{Site: "mapstructure.Decode@" + in.site(site), Label: pl.p.O.Label, Owned: pl.p.O.Owner != 0})
	}
}

// indirect follows a pointer in source data (reflect.Indirect).
func (in *Interp) msIndirect(d Iface) (Value, types.Type, bool) {
	if d.T == nil {
		return nil, nil, false
	}
	if pt, ok := d.T.Underlying().(*types.Pointer); ok {
		p := d.V.(Pointer)
		if p.O == nil {
			return nil, pt.Elem(), false
		}
		return loadPath(p.O.V, p.Path), pt.Elem(), true
	}
	return d.V, d.T, true
}

func (in *Interp) mapstructureDecode(src, dst Value, site ssa.Instruction) Value {
	out := dst.(Iface)
	if out.T == nil {
		return Iface{T: opaqueErrorType, V: &Opaque{Desc: "result must be a pointer"}}
	}
	pt, ok := out.T.Underlying().(*types.Pointer)
	if !ok {
		return Iface{T: opaqueErrorType, V: &Opaque{Desc: "result must be a pointer"}}
	}
	p := out.V.(Pointer)
	if p.O == nil {
		in.runtimePanic("mapstructure: nil result pointer", site)
	}
	var errs []string
	in.msDecode("", src.(Iface), msPlace{p: p, t: pt.Elem(), settable: true}, site, &errs)
	if len(errs) > 0 {
		return Iface{T: opaqueErrorType, V: &Opaque{Desc: "mapstructure: " + strings.Join(errs, "; ")}}
	}
	return Iface{}
}

func (in *Interp) msDecode(name string, input Iface, out msPlace, site ssa.Instruction, errs *[]string) bool {
	if input.T == nil {
		return true
	}
	if _, isPtr := input.T.Underlying().(*types.Pointer); isPtr {
		if input.V.(Pointer).O == nil {
			return true
		}
	}
	fail := func(format string, a ...interface{}) bool {
		*errs = append(*errs, fmt.Sprintf(format, a...))
		return false
	}
	switch kindOf(out.t) {
	case "bool":
		dv, dt, ok := in.msIndirect(input)
		if ok && kindOf(dt) == "bool" {
			in.msStore(out, dv, site)
			return true
		}
		return fail("'%s' expected type '%s', got unconvertible type '%v'", name, out.t, dt)
	case "interface":
		return in.msDecodeBasic(name, input, out, site, errs)
	case "string":
		dv, dt, ok := in.msIndirect(input)
		if ok && kindOf(dt) == "string" {
			in.msStore(out, dv, site)
			return true
		}
		return fail("'%s' expected type '%s', got unconvertible type '%v'", name, out.t, dt)
	case "int", "uint":
		dv, dt, ok := in.msIndirect(input)
		if !ok {
			return fail("'%s' expected type '%s', got unconvertible type '%v'", name, out.t, dt)
		}
		switch kindOf(dt) {
		case "int", "uint":
			if kindOf(out.t) == "uint" && kindOf(dt) == "int" && dv.(int64) < 0 {
				return fail("cannot parse '%s', %d overflows uint", name, dv)
			}
			in.msStore(out, wrapInt(dv.(int64), out.t), site)
			return true
		case "float":
			switch f := dv.(type) {
			case float64:
				if kindOf(out.t) == "uint" && f < 0 {
					return fail("cannot parse '%s', %f overflows uint", name, f)
				}
				in.msStore(out, in.convert(f, dt, out.t, site), site)
			case *smt.Term:
				k := in.P.ConcretizeInt(in, f, "mapstructure float->int "+name)
				if kindOf(out.t) == "uint" && k < 0 {
					return fail("cannot parse '%s', overflows uint", name)
				}
				in.msStore(out, wrapInt(k, out.t), site)
			}
			return true
		}
		return fail("'%s' expected type '%s', got unconvertible type '%v'", name, out.t, dt)
	case "float":
		dv, dt, ok := in.msIndirect(input)
		if !ok {
			return fail("'%s' expected type '%s', got unconvertible type '%v'", name, out.t, dt)
		}
		switch kindOf(dt) {
		case "int":
			in.msStore(out, float64(dv.(int64)), site)
			return true
		case "uint":
			in.msStore(out, float64(uint64(dv.(int64))), site)
			return true
		case "float":
			in.msStore(out, dv, site)
			return true
		}
		return fail("'%s' expected type '%s', got unconvertible type '%v'", name, out.t, dt)
	case "struct":
		return in.msDecodeStruct(name, input, out, site, errs)
	case "map":
		return in.msDecodeMap(name, input, out, site, errs)
	case "ptr":
		return in.msDecodePtr(name, input, out, site, errs)
	case "slice":
		return in.msDecodeSlice(name, input, out, site, errs)
	case "func":
		dv, dt, ok := in.msIndirect(input)
		if ok && types.Identical(dt, out.t) {
			in.msStore(out, dv, site)
			return true
		}
		return fail("'%s' expected type '%s', got unconvertible type '%v'", name, out.t, dt)
	}
	return fail("%s: unsupported type: %s", name, kindOf(out.t))
}

func (in *Interp) msDecodeBasic(name string, data Iface, out msPlace, site ssa.Instruction, errs *[]string) bool {
	cur, _ := in.msLoad(out).(Iface)
	if cur.T != nil {
		// decode into the element the interface currently holds; only a pointer element is
		// addressable through reflect (anything else makes the library panic in Set)
		if pt, ok := cur.T.Underlying().(*types.Pointer); ok {
			p := cur.V.(Pointer)
			if p.O == nil {
				return true
			}
			// decodePtr with a non-settable pointer: decode into the pointee
			if data.T == nil {
				return true
			}
			return in.msDecode(name, data, msPlace{p: p, t: pt.Elem(), settable: true}, site, errs)
		}
		switch kindOf(cur.T) {
		case "bool", "string", "int", "uint", "float", "struct", "map", "slice":
			// reflect: Set on an unaddressable value panics
			in.goPanic(Iface{T: opaqueErrorType, V: &Opaque{Desc: "reflect: reflect.Value.Set using unaddressable value (mapstructure into non-empty interface)"}}, site, true)
		}
		return true
	}
	dt := data.T
	dv := data.V
	if pt, ok := dt.Underlying().(*types.Pointer); ok && types.Identical(pt.Elem(), out.t) {
		p := dv.(Pointer)
		dv, dt = loadPath(p.O.V, p.Path), pt.Elem()
	}
	if !types.AssignableTo(dt, out.t) {
		*errs = append(*errs, fmt.Sprintf("'%s' expected type '%s', got '%s'", name, out.t, dt))
		return false
	}
	in.msStore(out, Iface{T: dt, V: dv}, site)
	return true
}

func (in *Interp) msDecodePtr(name string, data Iface, out msPlace, site ssa.Instruction, errs *[]string) bool {
	dv, dt, ok := in.msIndirect(data)
	isNil := !ok
	if ok {
		switch kindOf(dt) {
		case "map":
			isNil = dv.(*MapV) == nil
		case "slice":
			isNil = dv.(Slice).Arr == nil
		case "interface":
			isNil = dv.(Iface).T == nil
		case "ptr":
			isNil = dv.(Pointer).O == nil
		case "func":
			isNil = dv == nil
		}
	}
	cur := in.msLoad(out).(Pointer)
	if isNil {
		if cur.O != nil {
			in.msStore(out, Pointer{}, site)
		}
		return true
	}
	elem := out.t.Underlying().(*types.Pointer).Elem()
	real := cur
	if real.O == nil {
		real = Pointer{O: in.newObj(in.zero(elem), "mapstructure new "+elem.String())}
	}
	if !in.msDecode(name, data, msPlace{p: real, t: elem, settable: true}, site, errs) {
		return false
	}
	in.msStore(out, real, site)
	return true
}

func (in *Interp) msDecodeSlice(name string, data Iface, out msPlace, site ssa.Instruction, errs *[]string) bool {
	dv, dt, ok := in.msIndirect(data)
	elemT := out.t.Underlying().(*types.Slice).Elem()
	cur := in.msLoad(out).(Slice)
	k := ""
	if ok {
		k = kindOf(dt)
	}
	var srcElems []Value
	var srcElemT types.Type
	if k == "slice" {
		s := dv.(Slice)
		srcElemT = dt.Underlying().(*types.Slice).Elem()
		for i := 0; i < s.Len; i++ {
			srcElems = append(srcElems, s.Arr.V.(*ArrayV).E[s.Off+i])
		}
	} else if k == "array" {
		a := dv.(*ArrayV)
		srcElemT = dt.Underlying().(*types.Array).Elem()
		srcElems = a.E
	}
	valSlice := cur
	if cur.Arr == nil {
		if k != "slice" && k != "array" {
			*errs = append(*errs, fmt.Sprintf("'%s': source data must be an array or slice, got %s", name, k))
			return false
		}
		if len(srcElems) == 0 {
			return true
		}
		valSlice = in.makeSlice(elemT, len(srcElems), len(srcElems), "mapstructure slice")
	} else if k != "slice" && k != "array" {
		// the library would call dataVal.Len() on a non-slice and panic
		in.goPanic(Iface{T: opaqueErrorType, V: &Opaque{Desc: "reflect: call of reflect.Value.Len on " + k + " Value"}}, site, true)
	}
	okAll := true
	for i, e := range srcElems {
		for valSlice.Len <= i {
			// reflect.Append of a zero element
			if valSlice.Len < valSlice.Cap {
				valSlice.Arr.V.(*ArrayV).E[valSlice.Off+valSlice.Len] = in.zero(elemT)
				valSlice.Len++
			} else {
				nc := grownCap(int(in.Sizes.Sizeof(elemT)), hasPointers(elemT), valSlice.Len, valSlice.Cap, 1)
				ns := in.makeSlice(elemT, valSlice.Len+1, nc, "mapstructure append")
				for j := 0; j < valSlice.Len; j++ {
					ns.Arr.V.(*ArrayV).E[j] = clone(valSlice.Arr.V.(*ArrayV).E[valSlice.Off+j])
				}
				valSlice = ns
			}
		}
		pl := msPlace{p: Pointer{O: valSlice.Arr, Path: []int{valSlice.Off + i}}, t: elemT, settable: true}
		if !in.msDecode(fmt.Sprintf("%s[%d]", name, i), toData(e, srcElemT), pl, site, errs) {
			okAll = false
		}
	}
	in.msStore(out, valSlice, site)
	return okAll
}

func (in *Interp) msDecodeMap(name string, data Iface, out msPlace, site ssa.Instruction, errs *[]string) bool {
	mt := out.t.Underlying().(*types.Map)
	cur := in.msLoad(out).(*MapV)
	valMap := cur
	if valMap == nil {
		in.nextObj++
		valMap = &MapV{ID: in.nextObj, M: map[interface{}]Value{}, Epoch: in.epoch}
	}
	dv, dt, ok := in.msIndirect(data)
	if !ok {
		*errs = append(*errs, fmt.Sprintf("'%s' expected a map, got nil pointer", name))
		return false
	}
	switch kindOf(dt) {
	case "map":
		src := dv.(*MapV)
		smt := dt.Underlying().(*types.Map)
		if src == nil || len(src.Keys) == 0 {
			if src == nil {
				if cur != nil {
					if !types.AssignableTo(dt, out.t) {
						in.goPanic(Iface{T: opaqueErrorType, V: &Opaque{Desc: "reflect.Set: value not assignable"}}, site, true)
					}
					in.msStore(out, (*MapV)(nil), site)
				}
			} else {
				in.msStore(out, valMap, site)
			}
			return true
		}
		okAll := true
		for _, k := range in.P.MapOrder(in, src, "mapstructure") {
			fieldName := fmt.Sprintf("%s[%v]", name, toGo(k))
			kObj := in.newObj(in.zero(mt.Key()), "mapstructure key")
			if !in.msDecode(fieldName, toData(k, smt.Key()), msPlace{p: Pointer{O: kObj}, t: mt.Key(), settable: true}, site, errs) {
				okAll = false
				continue
			}
			vObj := in.newObj(in.zero(mt.Elem()), "mapstructure elem")
			sv, _ := src.Get(k)
			if !in.msDecode(fieldName, toData(sv, smt.Elem()), msPlace{p: Pointer{O: vObj}, t: mt.Elem(), settable: true}, site, errs) {
				okAll = false
				continue
			}
			if in.trackWrites && valMap == cur && (valMap.Epoch < in.epoch || valMap.Owner != 0) {
				in.Writes = append(in.Writes, WriteEvent{Site: "mapstructure.Decode@" + in.site(site), Label: "map", Owned: valMap.Owner != 0})
			}
			valMap.Set(kObj.V, vObj.V)
		}
		in.msStore(out, valMap, site)
		return okAll
	case "struct":
		return in.msMapFromStruct(name, dv.(*StructV), dt, out, valMap, true, site, errs)
	}
	*errs = append(*errs, fmt.Sprintf("'%s' expected a map, got '%s'", name, kindOf(dt)))
	return false
}

func exported(f *types.Var) bool { return f.Exported() }

func (in *Interp) msMapFromStruct(name string, sv *StructV, st types.Type, out msPlace, valMap *MapV, setOut bool, site ssa.Instruction, errs *[]string) bool {
	stt := st.Underlying().(*types.Struct)
	mt := out.t.Underlying().(*types.Map)
	for i := 0; i < stt.NumFields(); i++ {
		f := stt.Field(i)
		if !exported(f) {
			continue
		}
		if !types.AssignableTo(f.Type(), mt.Elem()) {
			*errs = append(*errs, fmt.Sprintf("cannot assign type '%s' to map value field of type '%s'", f.Type(), mt.Elem()))
			return false
		}
		keyName := f.Name()
		if kindOf(f.Type()) == "struct" {
			in.nextObj++
			vMap := &MapV{ID: in.nextObj, M: map[interface{}]Value{}, Epoch: in.epoch}
			holder := in.newObj(vMap, "mapstructure nested map")
			cp := in.newObj(clone(sv.F[i]), "mapstructure struct copy")
			if !in.msDecode(keyName, Iface{T: types.NewPointer(f.Type()), V: Pointer{O: cp}}, msPlace{p: Pointer{O: holder}, t: out.t, settable: true}, site, errs) {
				return false
			}
			valMap.Set(keyName, toMapElem(holder.V, out.t, mt.Elem()))
		} else {
			valMap.Set(keyName, toMapElem(clone(sv.F[i]), f.Type(), mt.Elem()))
		}
	}
	if setOut {
		in.msStore(out, valMap, site)
	}
	return true
}

// toMapElem converts a value of static type vt into the representation of a map element of type et.
func toMapElem(v Value, vt, et types.Type) Value {
	if _, ok := et.Underlying().(*types.Interface); ok {
		if _, isI := vt.Underlying().(*types.Interface); isI {
			return v
		}
		return Iface{T: vt, V: v}
	}
	return v
}

func (in *Interp) msDecodeStruct(name string, data Iface, out msPlace, site ssa.Instruction, errs *[]string) bool {
	dv, dt, ok := in.msIndirect(data)
	if !ok {
		*errs = append(*errs, fmt.Sprintf("'%s' expected a map, got nil", name))
		return false
	}
	if types.Identical(dt, out.t) {
		in.msStore(out, dv, site)
		return true
	}
	switch kindOf(dt) {
	case "map":
		return in.msStructFromMap(name, dv.(*MapV), dt, out, site, errs)
	case "struct":
		in.nextObj++
		m := &MapV{ID: in.nextObj, M: map[interface{}]Value{}, Epoch: in.epoch}
		mtype := types.NewMap(types.Typ[types.String], types.NewInterfaceType(nil, nil))
		holder := in.newObj(m, "mapstructure tmp map")
		if !in.msMapFromStruct(name, dv.(*StructV), dt, msPlace{p: Pointer{O: holder}, t: mtype, settable: true}, m, true, site, errs) {
			return false
		}
		return in.msStructFromMap(name, m, mtype, out, site, errs)
	}
	*errs = append(*errs, fmt.Sprintf("'%s' expected a map, got '%s'", name, kindOf(dt)))
	return false
}

func (in *Interp) msStructFromMap(name string, src *MapV, srcT types.Type, out msPlace, site ssa.Instruction, errs *[]string) bool {
	smt := srcT.Underlying().(*types.Map)
	if k := kindOf(smt.Key()); k != "string" && k != "interface" {
		*errs = append(*errs, fmt.Sprintf("'%s' needs a map with string keys, has '%s' keys", name, k))
		return false
	}
	stt := out.t.Underlying().(*types.Struct)
	okAll := true
	for i := 0; i < stt.NumFields(); i++ {
		f := stt.Field(i)
		fieldName := f.Name()
		var raw Value
		found := false
		if src != nil {
			if v, ok := src.Get(fieldName); ok {
				raw, found = v, true
			} else {
				matches := 0
				for _, k := range src.Keys {
					ks, isS := k.(string)
					if !isS {
						if ki, isI := k.(Iface); isI {
							ks, isS = ki.V.(string)
						}
					}
					if isS && strings.EqualFold(ks, fieldName) {
						if matches == 0 {
							raw, _ = src.Get(k)
						}
						found = true
						matches++
					}
				}
				if matches > 1 {
					panic(Unsupported{"mapstructure: two source keys fold to field " + fieldName + " (library behaviour depends on map iteration order)"})
				}
			}
		}
		if !found {
			continue
		}
		if !exported(f) {
			continue // CanSet() is false
		}
		fn := fieldName
		if name != "" {
			fn = name + "." + fieldName
		}
		pl := msPlace{p: Pointer{O: out.p.O, Path: extend(out.p.Path, i)}, t: f.Type(), settable: true}
		if !in.msDecode(fn, toData(raw, smt.Elem()), pl, site, errs) {
			okAll = false
		}
	}
	return okAll
}
