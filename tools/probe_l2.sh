#!/bin/bash
# usage: probe_l2.sh method bias1 bias2   -> one line: method b1 b2 paths wall queries solver_s
m=$1; b1=$2; b2=$3
out=$(cd /verif && timeout 60 bin/gosym -prop C07 -v -noevidence -noreplay -harness HC07_compose_L2 -budget 20s -workers 4 -fix method=$m,bias1=$b1,bias2=$b2 2>&1 | grep "HC07_compose_L2:" | sed -E 's/.*: ([0-9]+) paths in ([0-9.]+)s.*queries=([0-9]+) solver=([0-9.]+)s.*/\1 \2 \3 \4/')
echo "$m $b1 $b2 $out"
