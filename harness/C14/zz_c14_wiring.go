//go:build verif

//verif:dir zz_pipeline
package zz_pipeline

import (
	rt "github.com/Azbesciak/RealDecisionMaker/lib/zz_verifrt"
)

//verif:bounds C14 HC14_wiring: the registries extracted from httpClient/main.go: aspect elimination accepts the increasing sources (minValue 0 is valid, the additive series exists, the subtractive one does not), satisfaction the decreasing ones (minValue 0 rejected, subtractive exists, additive does not)

func c14wiringRequest(method, function string, minValue float64) *Outcome {
	dm := Request(ReqOpts{Method: method, A: 2, K: 1, Considered: 2, Values: 1, ConcreteParams: true, CritTypes: "gain", Levels: 1})
	dm.MethodParameters["function"] = function
	dm.MethodParameters["params"] = map[string]interface{}{"coefficient": 0.5, "minValue": minValue, "maxValue": float64(1)}
	return Decide(dm)
}

//verif:harness HC14_wiring mode=REAL reach=checked
func HC14_wiring() {
	ae, sat := "aspectEliminationHeuristic", "satisfactionHeuristic"
	rt.Assert("C14.wiring.aspect-elimination-has-additive-series", !c14wiringRequest(ae, "idealAdditiveCoefficient", 0.25).Panicked)
	rt.Assert("C14.wiring.aspect-elimination-has-no-subtractive-series", c14wiringRequest(ae, "idealSubtractiveCoefficient", 0.25).Panicked)
	rt.Assert("C14.wiring.aspect-elimination-multiplied-is-increasing(minValue 0 valid)", !c14wiringRequest(ae, "idealMultipliedCoefficient", 0).Panicked)
	rt.Assert("C14.wiring.satisfaction-has-subtractive-series", !c14wiringRequest(sat, "idealSubtractiveCoefficient", 0.25).Panicked)
	rt.Assert("C14.wiring.satisfaction-has-no-additive-series", c14wiringRequest(sat, "idealAdditiveCoefficient", 0.25).Panicked)
	rt.Assert("C14.wiring.satisfaction-multiplied-is-decreasing(minValue 0 rejected)", c14wiringRequest(sat, "idealMultipliedCoefficient", 0).Panicked)
	rt.Reach("checked")
}
