//go:build verif

//verif:dir model
package model

import (
	rt "github.com/Azbesciak/RealDecisionMaker/lib/zz_verifrt"
)

//verif:bounds C01 HC01_ranking: Rank()/Ranking() (the path of weightedSum, owa and choquetIntegral) with A<=4 (quick) / A<=5 (thorough) considered alternatives and free utilities; ids listed in an order different from the id order

var c01ids = []string{"d", "b", "e", "a", "c", "f"}

//verif:harness HC01_ranking mode=REAL reach=tie
func HC01_ranking() {
	A := rt.IntRange("A", 1, rt.Pick(4, 5))
	alts := make([]AlternativeWithCriteria, A)
	for i := 0; i < A; i++ {
		alts[i] = AlternativeWithCriteria{Id: c01ids[i], Criteria: Weights{"c": rt.Float("v" + c01ids[i])}}
	}
	crit := Criterion{Id: "c", Type: Gain}
	r := Rank(&DecisionMakingParams{ConsideredAlternatives: alts, Criteria: Criteria{crit}}, func(a *AlternativeWithCriteria) *AlternativeResult {
		return ValueAlternativeResult(a, a.CriterionRawValue(&crit))
	})
	rt.Assert("C01.ranking.count", len(*r) == A)
	for i := 0; i < A; i++ {
		n := 0
		for j := range *r {
			if (*r)[j].Alternative.Id == c01ids[i] {
				n++
			}
		}
		rt.Assert("C01.ranking.each-once", n == 1)
	}
	for j := range *r {
		e := (*r)[j]
		if len(e.BetterThanOrSameAs) >= 1 && j+1 < len(*r) && (*r)[j].Value() == (*r)[j+1].Value() {
			rt.Reach("tie")
		}
		for _, l := range e.BetterThanOrSameAs {
			rt.Assert("C01.ranking.link-not-self", l != e.Alternative.Id)
			known, dup := false, 0
			for i := 0; i < A; i++ {
				if c01ids[i] == l {
					known = true
				}
			}
			for _, l2 := range e.BetterThanOrSameAs {
				if l2 == l {
					dup++
				}
			}
			rt.Assert("C01.ranking.link-in-result", known)
			rt.Assert("C01.ranking.link-no-dup", dup == 1)
		}
	}
}
