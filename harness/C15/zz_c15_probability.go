//go:build verif

//verif:dir model/criteria-ordering
package criteria_ordering

import (
	"github.com/Azbesciak/RealDecisionMaker/lib/logic/limited-rationality/majority"
	"github.com/Azbesciak/RealDecisionMaker/lib/model"
	vh "github.com/Azbesciak/RealDecisionMaker/lib/zz_vh"
	rt "github.com/Azbesciak/RealDecisionMaker/lib/zz_verifrt"
)

//verif:bounds C15 HC15_probability: weakestByProbability / strongestByProbability with K<=3 criteria, symbolic importances (majority listener: importance = weight, in [0,4]) and symbolic draws: the ordering is a permutation for every draw; exact characterisation of the first pick - with shift = max(0, 1 - smallest importance) and share_i proportional to 1/(importance_i + shift), criterion i (in ascending importance) is put first iff draw x total lies in (cum_{i-1}, cum_i] - and shares are antitone in importance, so under a uniform draw a less important criterion is put first at least as often as a more important one; strongestByProbability is the exact reverse for the same seed
//verif:outside C15: 'more often' as a frequency is arithmetic on the proved interval characterisation plus the trusted uniformity of math/rand.Float64

//verif:harness HC15_probability mode=REAL reach=first-is-weakest,first-is-not-weakest
func HC15_probability() {
	K := rt.IntRange("K", 1, 3)
	crit := vh.Criteria(K, "gain")
	known := vh.Alternatives("", vh.AltIds[:1], crit)
	w := vh.Weights("w.", crit, 0, 4)
	dmp := vh.Params(known, []string{"a"}, crit, majority.MajorityHeuristicParams{Weights: w})
	var listener model.BiasListener = &majority.MajorityBiasListener{}
	var props model.BiasProps = map[string]interface{}{"randomSeed": float64(71)}
	wbp := &WeakestByProbabilityCriteriaOrderingResolver{Generator: rt.Generators}
	res := wbp.OrderCriteria(dmp, &props, &listener)
	rt.Assert("C15.prob.length", len(*res) == K)
	ids := *res.Names()
	for _, c := range crit {
		rt.Assert("C15.prob.permutation", vh.Count(ids, c.Id) == 1)
	}
	// ascending importance, ties in declaration order (selection that forks on the comparisons)
	sorted := append(model.Criteria{}, crit...)
	for x := 0; x < K; x++ {
		for y := x + 1; y < K; y++ {
			if rt.Branch(w[sorted[y].Id] < w[sorted[x].Id]) {
				c := sorted[y]
				copy(sorted[x+1:y+1], sorted[x:y])
				sorted[x] = c
			}
		}
	}
	minW := w[sorted[0].Id]
	shift := 0.0
	if rt.Branch(minW <= 1) {
		shift = 1 - minW
		minW = 1
	}
	share := make([]float64, K)
	total := 0.0
	for i := range sorted {
		share[i] = minW / (w[sorted[i].Id] + shift)
		total += share[i]
		if i > 0 {
			rt.Assert("C15.prob.share-antitone-in-importance", share[i] <= share[i-1])
		}
	}
	g := rt.Generators(71)()
	target := g * total
	cum := 0.0
	first := K - 1
	for i := range sorted {
		cum += share[i]
		if rt.Branch(cum >= target) {
			first = i
			break
		}
	}
	if K > 1 {
		rt.Assert("C15.prob.first-pick-characterisation", (*res)[0].Id == sorted[first].Id)
	}
	if first == 0 {
		rt.Reach("first-is-weakest")
	} else {
		rt.Reach("first-is-not-weakest")
	}
	// strongestByProbability: exact reverse for the same seed
	sbp := &StrongestByProbabilityCriteriaOrderingResolver{WeakestByProbability: wbp}
	res2 := sbp.OrderCriteria(dmp, &props, &listener)
	rt.Assert("C15.prob.strongest-length", len(*res2) == K)
	for i := 0; i < K && i < len(*res2); i++ {
		rt.Assert("C15.prob.strongest-is-reverse", (*res2)[i].Id == (*res)[K-1-i].Id)
	}
}
