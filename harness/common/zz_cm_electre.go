//go:build verif

//verif:dir logic/preference-func/electreIII
package electreIII

import (
	"github.com/Azbesciak/RealDecisionMaker/lib/model"
	"github.com/Azbesciak/RealDecisionMaker/lib/utils"
	vh "github.com/Azbesciak/RealDecisionMaker/lib/zz_vh"
	rt "github.com/Azbesciak/RealDecisionMaker/lib/zz_verifrt"
)

// Shared by the ELECTRE III harnesses (C05, C06): threshold builders, the textbook credibility and a
// set-based reference distillation written from the method's definition.

type eThr struct {
	hasQ, hasP, hasV bool
	q, p, v, k       float64
}

// eThresholds: symbolic constant thresholds 0 <= q < p < v, each possibly absent (veto only with a preference threshold), k > 0
func eThresholds(px string, c model.Criterion, shape string) (eThr, ElectreCriterion) {
	t := eThr{k: rt.FloatIn(px+"k."+c.Id, 0.125, 4)}
	ec := ElectreCriterion{K: t.k}
	if shape == "q" || shape == "qp" || shape == "qpv" {
		t.hasQ = true
		t.q = rt.FloatIn(px+"q."+c.Id, 0, 8)
		rt.Assume(t.q > 0) // a zero b with a zero a means 'absent' to the implementation
		ec.Q = utils.LinearFunctionParameters{B: t.q}
	}
	if shape == "p" || shape == "qp" || shape == "pv" || shape == "qpv" {
		t.hasP = true
		t.p = rt.FloatIn(px+"p."+c.Id, 0.015625, 8)
		if t.hasQ {
			rt.Assume(t.q < t.p)
		}
		ec.P = utils.LinearFunctionParameters{B: t.p}
	}
	if shape == "pv" || shape == "qpv" {
		t.hasV = true
		t.v = rt.FloatIn(px+"v."+c.Id, 0.03125, 16)
		rt.Assume(t.p < t.v)
		ec.V = utils.LinearFunctionParameters{B: t.v}
	}
	return t, ec
}

var eShapes = []string{"none", "q", "p", "qp", "pv", "qpv"}

// ePartial: textbook partial concordance and discordance of 'a outranks b' on one criterion; diff = how much b is better than a
func ePartial(t eThr, diff float64) (float64, float64) {
	q0 := 0.0
	if t.hasQ {
		q0 = t.q
	}
	if rt.Branch(diff <= 0) {
		return 1, 0 // an alternative that is not worse on a criterion is fully concordant on it
	}
	if t.hasQ && rt.Branch(diff <= t.q) {
		return 1, 0
	}
	if t.hasP && rt.Branch(diff <= t.p) {
		return 1 - (diff-q0)/(t.p-q0), 0
	}
	if t.hasV {
		if rt.Branch(diff <= t.v) {
			return 0, (diff - t.p) / (t.v - t.p)
		}
		return 0, 1
	}
	return 0, 0
}

// eCredibility: weighted concordance and the veto product over criteria whose discordance exceeds it
func eCredibility(crit model.Criteria, thr map[string]eThr, a, b *model.AlternativeWithCriteria) (float64, float64) {
	ksum, csum := 0.0, 0.0
	ds := make([]float64, len(crit))
	for i := range crit {
		c := crit[i]
		t := thr[c.Id]
		diff := vh.Signed(&c, b.Criteria[c.Id]) - vh.Signed(&c, a.Criteria[c.Id])
		cj, dj := ePartial(t, diff)
		ksum += t.k
		csum += t.k * cj
		ds[i] = dj
	}
	C := csum / ksum
	sigma := C
	for i := range crit {
		if rt.Branch(ds[i] > C) {
			sigma *= (1 - ds[i]) / (1 - C)
		}
	}
	return C, sigma
}

// eDistill: reference distillation of a credibility matrix (sigma[i][j], diagonal ignored) with cut-level
// function s(x) = a x + b. best=true: classes from the best (largest qualification first); best=false: from the
// worst (smallest qualification first). Returns class numbers in order of extraction (1 = first extracted).
func eDistill(sigma [][]float64, sa, sb float64, best bool) []int {
	n := len(sigma)
	s := func(x float64) float64 {
		if sa == 0 && sb == 0 {
			return 0
		}
		return sa*x + sb
	}
	cls := make([]int, n)
	var remaining []int
	for i := 0; i < n; i++ {
		remaining = append(remaining, i)
	}
	pos := 1
	for len(remaining) > 0 {
		lam := 0.0
		for _, x := range remaining {
			for _, y := range remaining {
				if x != y && rt.Branch(sigma[x][y] > lam) {
					lam = sigma[x][y]
				}
			}
		}
		if rt.Branch(lam == 0) {
			for _, x := range remaining {
				cls[x] = pos
			}
			break
		}
		D := append([]int{}, remaining...)
		for {
			cut := lam - s(lam)
			next := 0.0
			for _, x := range D {
				for _, y := range D {
					if x != y && rt.Branch(sigma[x][y] < cut) && rt.Branch(sigma[x][y] > next) {
						next = sigma[x][y]
					}
				}
			}
			outranks := func(x, y int) bool {
				v := sigma[x][y]
				return rt.Branch(v > next) && rt.Branch(v > sigma[y][x]+s(v))
			}
			qual := map[int]int{}
			for _, x := range D {
				for _, y := range D {
					if x != y && outranks(x, y) {
						qual[x]++
						qual[y]--
					}
				}
			}
			bestQ := qual[D[0]]
			for _, x := range D {
				if (best && qual[x] > bestQ) || (!best && qual[x] < bestQ) {
					bestQ = qual[x]
				}
			}
			var D2 []int
			for _, x := range D {
				if qual[x] == bestQ {
					D2 = append(D2, x)
				}
			}
			D = D2
			if len(D) == 1 || rt.Branch(next == 0) {
				break
			}
			lam = next
		}
		for _, x := range D {
			cls[x] = pos
		}
		var rest []int
		for _, x := range remaining {
			keep := true
			for _, y := range D {
				if x == y {
					keep = false
				}
			}
			if keep {
				rest = append(rest, x)
			}
		}
		remaining = rest
		pos++
	}
	return cls
}

// eIndices: ascendingIndex / descendingIndex as the statement defines them (1 = best in both)
func eIndices(sigma [][]float64, sa, sb float64) ([]int, []int) {
	asc := eDistill(sigma, sa, sb, true)
	fromWorst := eDistill(sigma, sa, sb, false)
	mx := 0
	for _, v := range fromWorst {
		if v > mx {
			mx = v
		}
	}
	desc := make([]int, len(fromWorst))
	for i, v := range fromWorst {
		desc[i] = mx + 1 - v
	}
	return asc, desc
}

// threshold shapes with concrete constants (q=0.5, p=1.5, v=3), weights (1,2,1) x kscale
func c06criteria(crit model.Criteria, shape string, kscale float64) ElectreCriteria {
	ec := ElectreCriteria{}
	for i, c := range crit {
		e := ElectreCriterion{K: []float64{1, 2, 1}[i] * kscale}
		if shape == "q" || shape == "qp" || shape == "qpv" {
			e.Q = utils.LinearFunctionParameters{B: 0.5}
		}
		if shape == "p" || shape == "qp" || shape == "pv" || shape == "qpv" {
			e.P = utils.LinearFunctionParameters{B: 1.5}
		}
		if shape == "pv" || shape == "qpv" {
			e.V = utils.LinearFunctionParameters{B: 3}
		}
		ec[c.Id] = e
	}
	return ec
}

