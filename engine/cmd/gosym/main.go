// gosym: bounded symbolic execution of the real Go code of /repo (go/ssa -> SMT).
//
//	gosym -prop C04 -tier quick            run all harnesses of a property, replay, write evidence
//	gosym -prop C04 -harness HC04_x ...    restrict to one harness
package main

import (
	"encoding/json"
	"flag"
	"fmt"
	"os"
	"path/filepath"
	"regexp"
	"runtime"
	"sort"
	"strconv"
	"strings"
	"time"

	"gosym/smt"
	"gosym/sym"

	"golang.org/x/tools/go/packages"
	"golang.org/x/tools/go/ssa"
	"golang.org/x/tools/go/ssa/ssautil"
)

const libPath = "github.com/Azbesciak/RealDecisionMaker/lib"

type harnessSpec struct {
	Name    string
	File    string // harness source file in /verif/harness
	Dir     string // package dir relative to /repo/lib
	Mode    smt.Mode
	Reach   []string
	Opts    map[string]string
	PkgPath string
}

type knownFinding struct {
	Status   string `json:"status"` // "known" | "fixed"
	Property string `json:"property"`
	ID       string `json:"id"`
	What     string `json:"what"`
	CallSite string `json:"call_site,omitempty"`
	Commit   string `json:"commit,omitempty"`
	Witness  interface{} `json:"witness,omitempty"`
}

var (
	flagProp    = flag.String("prop", "", "property id (C01..C20)")
	flagTier    = flag.String("tier", "quick", "quick|thorough")
	flagHarness = flag.String("harness", "", "only this harness function")
	flagVerif   = flag.String("verif", "/verif", "verification directory")
	flagRepo    = flag.String("repo", "/repo", "repository under test")
	flagWorkers = flag.Int("workers", 0, "parallel path workers (default: NumCPU)")
	flagSeed    = flag.Int64("seed", 0, "seed for sampled choices (differential validation vectors)")
	flagNoMerge = flag.Bool("nomerge", false, "disable if-conversion (cross-check)")
	flagNoReplay = flag.Bool("noreplay", false, "do not replay counterexamples natively (debugging only; never reports VIOLATION)")
	flagMaxPaths = flag.Int("maxpaths", 0, "path cap per harness")
	flagVerbose = flag.Bool("v", false, "verbose")
	flagNoEvidence = flag.Bool("noevidence", false, "do not write the evidence file")
	flagCross   = flag.Int("cross", -1, "number of obligations per harness re-decided by z3 4.8.12 and cvc5 (-1: tier default)")
	flagReplayFile = flag.String("replayfile", "", "replay a stored counterexample against the native build of /repo's current tree")
	flagFix     = flag.String("fix", "", "restrict harness choices: name=value,name=value (debugging / sharding)")
	flagTimeBudget = flag.Duration("budget", 0, "wall-clock budget per harness (0: tier default)")
)

func main() {
	flag.Parse()
	if *flagReplayFile != "" {
		os.Setenv("GOFLAGS", "-mod=mod")
		os.Setenv("GOPROXY", "off")
		os.Setenv("GOSUMDB", "off")
		os.Setenv("GOTOOLCHAIN", "local")
		os.Exit(replayStored(*flagReplayFile))
	}
	if *flagProp == "" {
		fmt.Fprintln(os.Stderr, "usage: gosym -prop Cxx [-tier quick|thorough]")
		os.Exit(2)
	}
	if *flagWorkers == 0 {
		*flagWorkers = runtime.NumCPU()
	}
	os.Setenv("GOFLAGS", "-mod=mod")
	os.Setenv("GOPROXY", "off")
	os.Setenv("GOSUMDB", "off")
	os.Setenv("GOTOOLCHAIN", "local")
	code := run()
	os.Exit(code)
}

var dirRe = regexp.MustCompile(`(?m)^//verif:dir\s+(\S+)`)
var harnessRe = regexp.MustCompile(`(?m)^//verif:harness\s+(\w+)(.*)$`)

// collect finds the harness files for a property (plus the common helpers) and their specs.
func collect(prop string) (files map[string]string, specs []harnessSpec, err error) {
	files = map[string]string{} // overlay path -> source path
	rtSrc := filepath.Join(*flagVerif, "rt", "verifrt.go")
	files[filepath.Join(*flagRepo, "lib", "zz_verifrt", "verifrt.go")] = rtSrc
	for _, d := range []string{"common", prop} {
		matches, _ := filepath.Glob(filepath.Join(*flagVerif, "harness", d, "*.go"))
		sort.Strings(matches)
		for _, m := range matches {
			b, e := os.ReadFile(m)
			if e != nil {
				return nil, nil, e
			}
			dm := dirRe.FindSubmatch(b)
			if dm == nil {
				return nil, nil, fmt.Errorf("%s: missing //verif:dir", m)
			}
			dir := string(dm[1])
			files[filepath.Join(*flagRepo, "lib", dir, filepath.Base(m))] = m
			for _, hm := range harnessRe.FindAllSubmatch(b, -1) {
				hs := harnessSpec{Name: string(hm[1]), File: m, Dir: dir, Opts: map[string]string{}, PkgPath: libPath + "/" + dir}
				for _, kv := range strings.Fields(string(hm[2])) {
					p := strings.SplitN(kv, "=", 2)
					if len(p) == 2 {
						hs.Opts[p[0]] = p[1]
					} else {
						hs.Opts[p[0]] = "true"
					}
				}
				if strings.EqualFold(hs.Opts["mode"], "FP") {
					hs.Mode = smt.FP
				}
				if r := hs.Opts["reach"]; r != "" {
					hs.Reach = strings.Split(r, ",")
				}
				if d == prop {
					specs = append(specs, hs)
				}
			}
		}
	}
	return files, specs, nil
}

type loaded struct {
	prog *ssa.Program
	pkgs map[string]*ssa.Package
}

func load(files map[string]string, dirs []string) (*loaded, error) {
	overlay := map[string][]byte{}
	for dst, src := range files {
		b, err := os.ReadFile(src)
		if err != nil {
			return nil, err
		}
		overlay[dst] = b
	}
	patterns := []string{"./zz_verifrt"}
	seen := map[string]bool{}
	for _, d := range dirs {
		if !seen[d] {
			seen[d] = true
			patterns = append(patterns, "./"+d)
		}
	}
	cfg := &packages.Config{
		Mode:       packages.LoadAllSyntax,
		Dir:        filepath.Join(*flagRepo, "lib"),
		Overlay:    overlay,
		BuildFlags: []string{"-tags=verif"},
		Env:        append(os.Environ(), "GOFLAGS=-mod=mod", "GOPROXY=off", "GOSUMDB=off"),
	}
	initial, err := packages.Load(cfg, patterns...)
	if err != nil {
		return nil, err
	}
	var errs []string
	packages.Visit(initial, nil, func(p *packages.Package) {
		for _, e := range p.Errors {
			if strings.HasPrefix(p.PkgPath, libPath) {
				errs = append(errs, e.Error())
			}
		}
	})
	if len(errs) > 0 {
		return nil, fmt.Errorf("harness/repo does not build:\n%s", strings.Join(errs, "\n"))
	}
	prog, _ := ssautil.AllPackages(initial, ssa.InstantiateGenerics)
	prog.Build()
	l := &loaded{prog: prog, pkgs: map[string]*ssa.Package{}}
	for _, p := range prog.AllPackages() {
		l.pkgs[p.Pkg.Path()] = p
	}
	return l, nil
}

type harnessResult struct {
	Spec   harnessSpec
	Report *sym.Report
	Confirmed []confirmed   // violations that replayed natively
	Unconfirmed []sym.Violation
	KFConfirmed map[string]string // kf id -> replay file
	KFUnconfirmed []string
	MissingReach []string
	Cross  map[string]int
	CrossDisagree int
	Inconclusive []string
	BudgetPaths int
	Validation  *validation
}

type confirmed struct {
	V      sym.Violation
	Replay string
}

func run() int {
	t0 := time.Now()
	prop := *flagProp
	tier := *flagTier
	files, specs, err := collect(prop)
	if err != nil {
		fmt.Fprintln(os.Stderr, "gosym:", err)
		return 2
	}
	if *flagHarness != "" {
		var f []harnessSpec
		for _, s := range specs {
			if s.Name == *flagHarness {
				f = append(f, s)
			}
		}
		specs = f
	}
	if len(specs) == 0 {
		fmt.Fprintf(os.Stderr, "gosym: no harness for %s\n", prop)
		return 2
	}
	scratch, err := os.MkdirTemp("", "gosym-gen-")
	if err != nil {
		fmt.Fprintln(os.Stderr, "gosym:", err)
		return 2
	}
	defer os.RemoveAll(scratch)
	if err := addPipeline(files, scratch); err != nil {
		fmt.Fprintln(os.Stderr, "gosym: INCONCLUSIVE:", err)
		return 2
	}
	var dirs []string
	for dst := range files {
		rel, _ := filepath.Rel(filepath.Join(*flagRepo, "lib"), filepath.Dir(dst))
		dirs = append(dirs, rel)
	}
	sort.Strings(dirs)
	tl := time.Now()
	ld, err := load(files, dirs)
	if err != nil {
		fmt.Fprintln(os.Stderr, "gosym: INCONCLUSIVE:", err)
		return 2
	}
	loadS := time.Since(tl).Seconds()
	if *flagVerbose {
		fmt.Fprintf(os.Stderr, "loaded and built SSA in %.1fs\n", loadS)
	}

	kfs := readKnownFindings()
	knownActive := map[string]bool{}
	for _, k := range kfs {
		if k.Property == prop && k.Status == "known" {
			knownActive[k.ID] = true
		}
	}

	var results []*harnessResult
	exit := 0
	for _, hs := range specs {
		if t := hs.Opts["tier"]; t != "" && t != tier {
			continue
		}
		pkg := ld.pkgs[hs.PkgPath]
		if pkg == nil {
			fmt.Fprintf(os.Stderr, "gosym: package %s not loaded\n", hs.PkgPath)
			return 2
		}
		fn := pkg.Func(hs.Name)
		if fn == nil {
			fmt.Fprintf(os.Stderr, "gosym: harness %s not found in %s\n", hs.Name, hs.PkgPath)
			return 2
		}
		cross := *flagCross
		if cross < 0 {
			cross = 2
			if tier == "thorough" {
				cross = 6
			}
		}
		budget := *flagTimeBudget
		if budget == 0 {
			budget = 8 * time.Minute
			if tier == "thorough" {
				budget = 45 * time.Minute
			}
			if b := hs.Opts["budget_"+tier]; b != "" {
				if d, e := time.ParseDuration(b); e == nil {
					budget = d
				}
			}
		}
		if *flagMaxPaths == 0 && tier == "thorough" {
			*flagMaxPaths = 5_000_000
		}
		cfg := sym.Config{Prog: ld.prog, Harness: fn, Scope: "github.com/Azbesciak/RealDecisionMaker/", Mode: hs.Mode, Tier: tier, Workers: *flagWorkers,
			KnownKF: knownActive, MaxPaths: *flagMaxPaths, KeepScripts: cross, NoMerge: *flagNoMerge, Deadline: time.Now().Add(budget)}
		if v := hs.Opts["ob_timeout_ms"]; v != "" {
			cfg.TimeoutObMs, _ = strconv.Atoi(v)
		}
		if v := hs.Opts["feas_timeout_ms"]; v != "" {
			cfg.TimeoutFeasMs, _ = strconv.Atoi(v)
		}
		if v := hs.Opts["maxsteps"]; v != "" {
			n, _ := strconv.Atoi(v)
			cfg.Limits = sym.DefaultLimits
			cfg.Limits.MaxSteps = n
		}
		if v := hs.Opts["maxdepth"]; v != "" {
			n, _ := strconv.Atoi(v)
			if cfg.Limits.MaxSteps == 0 {
				cfg.Limits = sym.DefaultLimits
			}
			cfg.Limits.MaxDepth = n
		}
		if *flagFix != "" {
			cfg.Fixed = map[string]string{}
			for _, kv := range strings.Split(*flagFix, ",") {
				p := strings.SplitN(kv, "=", 2)
				if len(p) == 2 {
					cfg.Fixed[p[0]] = p[1]
				}
			}
		}
		rep := sym.Explore(cfg)
		hr := &harnessResult{Spec: hs, Report: rep, KFConfirmed: map[string]string{}, Cross: map[string]int{}}
		results = append(results, hr)
		if *flagVerbose {
			fmt.Fprintf(os.Stderr, "%s: %d paths in %.1fs, ends=%v forks=%d merged=%d modelhits=%d obligations=%d discharged=%d unknown=%d feasunknown=%d violations=%v kf=%d queries=%d solver=%.1fs\n",
				hs.Name, rep.Paths, rep.WallS, rep.Ends, rep.Forks, rep.Merged, rep.ModelHits, rep.ObTotal, rep.ObDischarged, rep.ObUnknown, rep.FeasUnknown, rep.ViolationCount, len(rep.KFSeen), rep.Solver.Queries, rep.Solver.Time.Seconds())
			for k, n := range rep.EndDetails {
				fmt.Fprintf(os.Stderr, "   end %s ×%d\n", k, n)
			}
			for _, n := range rep.Notes {
				fmt.Fprintf(os.Stderr, "   note %s\n", n)
			}
		}
		// inconclusive conditions
		hr.Inconclusive = append(hr.Inconclusive, rep.Inconclusive...)
		if rep.ObUnknown > 0 {
			hr.Inconclusive = append(hr.Inconclusive, fmt.Sprintf("%d obligations undecided (unknown)", rep.ObUnknown))
		}
		if rep.Truncated {
			hr.Inconclusive = append(hr.Inconclusive, "exploration truncated (path cap or time budget) before all paths were covered")
		}
		for _, l := range hs.Reach {
			if rep.Reached[l] == 0 {
				hr.MissingReach = append(hr.MissingReach, l)
			}
		}
		if len(hr.MissingReach) > 0 {
			hr.Inconclusive = append(hr.Inconclusive, "vacuity: labels never reached: "+strings.Join(hr.MissingReach, ","))
		}
		// cross-check a sample of obligations with the other solvers
		for _, sc := range rep.Scripts {
			rz, _ := smt.RunExternal("z3-new", []string{"-in", "-T:60"}, sc, 70*time.Second)
			for _, ext := range [][]string{{"/usr/bin/z3", "-in", "-T:60"}, {"cvc5", "--tlimit=60000", "--lang=smt2"}} {
				re, _ := smt.RunExternal(ext[0], ext[1:], sc, 70*time.Second)
				key := filepath.Base(ext[0]) + ":" + re.String()
				hr.Cross[key]++
				if rz != smt.Unknown && re != smt.Unknown && rz != re {
					hr.CrossDisagree++
				}
			}
		}
		if hr.CrossDisagree > 0 {
			hr.Inconclusive = append(hr.Inconclusive, fmt.Sprintf("%d obligations decided differently by two solvers", hr.CrossDisagree))
		}
	}

	// replay
	rp := newReplayer(files)
	defer rp.cleanup()
	for _, hr := range results {
		budgetIsFinding := hr.Spec.Opts["budget"] == "finding"
		var cands []sym.Violation
		for _, v := range hr.Report.Violations {
			if v.Assert == "budget" && !budgetIsFinding {
				hr.BudgetPaths++
				continue
			}
			cands = append(cands, v)
		}
		if hr.BudgetPaths > 0 {
			hr.Inconclusive = append(hr.Inconclusive, fmt.Sprintf("%d paths hit an unwinding bound (bound too small; not a verdict)", hr.BudgetPaths))
		}
		if *flagNoReplay {
			hr.Unconfirmed = cands
			if len(cands) > 0 {
				hr.Inconclusive = append(hr.Inconclusive, "counterexamples not replayed (-noreplay)")
			}
		} else {
			done := map[string]bool{}
			for _, v := range cands {
				if done[v.Assert] {
					continue
				}
				path, ok, out := rp.replay(hr.Spec, tier, v)
				if ok {
					hr.Confirmed = append(hr.Confirmed, confirmed{v, path})
					done[v.Assert] = true
				} else {
					if *flagVerbose {
						mb, _ := json.Marshal(v.Model)
						fmt.Fprintf(os.Stderr, "replay of %s/%s did not reproduce (model %s):\n%s\n", hr.Spec.Name, v.Assert, mb, out)
					}
					hr.Unconfirmed = append(hr.Unconfirmed, v)
				}
			}
			var stillUnconfirmed []sym.Violation
			for _, v := range hr.Unconfirmed {
				if !done[v.Assert] {
					stillUnconfirmed = append(stillUnconfirmed, v)
				}
			}
			hr.Unconfirmed = stillUnconfirmed
			if len(hr.Unconfirmed) > 0 {
				hr.Inconclusive = append(hr.Inconclusive, fmt.Sprintf("%d counterexample(s) did not reproduce natively (unconfirmed_real_only)", len(hr.Unconfirmed)))
			}
			for id, v := range hr.Report.KFSeen {
				path, ok, out := rp.replay(hr.Spec, tier, v)
				if ok {
					hr.KFConfirmed[id] = path
				} else {
					if *flagVerbose {
						fmt.Fprintf(os.Stderr, "replay of known finding %s did not reproduce:\n%s\n", id, out)
					}
					hr.KFUnconfirmed = append(hr.KFUnconfirmed, id)
				}
			}
		}
		if !*flagNoReplay {
			hr.Validation = rp.validate(ld, hr, tier)
			if hr.Validation != nil && hr.Validation.Mismatches > 0 && *flagVerbose {
				fmt.Fprintf(os.Stderr, "translator validation of %s: error=%q\n", hr.Spec.Name, hr.Validation.Error)
				for _, s := range hr.Validation.Samples {
					fmt.Fprintln(os.Stderr, "  ", s)
				}
			}
			if hr.Validation != nil && hr.Validation.Mismatches > 0 {
				hr.Inconclusive = append(hr.Inconclusive, fmt.Sprintf("translator validation: %d concrete vectors disagree between the engine and the native build", hr.Validation.Mismatches))
			}
		}
	}

	// verdict
	violations := 0
	for _, hr := range results {
		for _, c := range hr.Confirmed {
			fmt.Printf("VIOLATION property=%s replay=%s\n", prop, c.Replay)
			fmt.Fprintf(os.Stderr, "  harness=%s assertion=%s %s\n", hr.Spec.Name, c.V.Assert, c.V.Note)
			violations++
		}
	}
	kfPrinted := map[string]bool{}
	for _, hr := range results {
		for id := range hr.KFConfirmed {
			if kfPrinted[id] {
				continue
			}
			kfPrinted[id] = true
			what := id
			for _, k := range kfs {
				if k.ID == id {
					what = k.ID + ": " + k.What
				}
			}
			fmt.Printf("KNOWN-FINDING: property=%s %s\n", prop, what)
		}
	}
	inconclusive := 0
	for _, hr := range results {
		for _, s := range hr.Inconclusive {
			fmt.Fprintf(os.Stderr, "INCONCLUSIVE %s: %s\n", hr.Spec.Name, s)
			inconclusive++
		}
	}
	switch {
	case violations > 0:
		exit = 1
	case inconclusive > 0:
		exit = 2
	}
	if !*flagNoEvidence && prop != "SELFTEST" {
		writeEvidence(prop, tier, results, kfs, time.Since(t0).Seconds(), loadS, violations, inconclusive)
	}
	if exit == 0 {
		n := 0
		d := 0
		p := 0
		for _, hr := range results {
			n += hr.Report.ObTotal
			d += hr.Report.ObDischarged
			p += hr.Report.Paths
		}
		fmt.Printf("OK property=%s tier=%s harnesses=%d paths=%d obligations=%d discharged=%d wall=%.1fs\n", prop, tier, len(results), p, n, d, time.Since(t0).Seconds())
	}
	return exit
}

func readKnownFindings() []knownFinding {
	var kfs []knownFinding
	b, err := os.ReadFile(filepath.Join(*flagVerif, "known-findings.json"))
	if err != nil {
		return nil
	}
	if err := json.Unmarshal(b, &kfs); err != nil {
		fmt.Fprintln(os.Stderr, "gosym: known-findings.json:", err)
		os.Exit(2)
	}
	return kfs
}
