//go:build verif

//verif:dir logic/preference-func/electreIII
package electreIII

import (
	"github.com/Azbesciak/RealDecisionMaker/lib/model"
	rt "github.com/Azbesciak/RealDecisionMaker/lib/zz_verifrt"
	vh "github.com/Azbesciak/RealDecisionMaker/lib/zz_vh"
)

//verif:bounds C06 HC06_distillation_invariance: order invariance and the identical-alternatives clause at the distillation level (where they are decided): RankAscending / RankDescending on an ARBITRARY symbolic credibility matrix of n=3 alternatives (off-diagonal entries free in [0,1]; optionally alternatives b and c identical: equal rows and columns) and on the same matrix with the alternatives listed in another order (reversed; thorough tier also rotated): every alternative gets the same two indices, identical alternatives get equal indices; the matrix handed in is not modified
//verif:harness HC06_distillation_invariance mode=REAL reach=several-classes,identical-pair
func HC06_distillation_invariance() {
	const n = 3
	identical := rt.Bool("b-and-c-identical")
	sigma := make([][]float64, n)
	for i := 0; i < n; i++ {
		sigma[i] = make([]float64, n)
	}
	for i := 0; i < n; i++ {
		for j := 0; j < n; j++ {
			if i == j {
				sigma[i][j] = 1
			} else {
				sigma[i][j] = rt.FloatIn("s."+vh.AltIds[i]+vh.AltIds[j], 0, 1)
			}
		}
	}
	if identical {
		// b and c are the same alternative under two names: same credibilities towards and from a, full credibility between them
		sigma[2][0], sigma[0][2] = sigma[1][0], sigma[0][1]
		sigma[1][2], sigma[2][1] = 1, 1
		rt.Reach("identical-pair")
	}
	perm := [][]int{{2, 1, 0}, {1, 2, 0}}[rt.IntRange("listing", 0, rt.Pick(0, 1))]
	build := func(order []int) (*AlternativesMatrix, [][]float64) {
		rows := make([][]float64, n)
		ids := make(model.Alternatives, n)
		for i := 0; i < n; i++ {
			rows[i] = make([]float64, n)
			ids[i] = vh.AltIds[order[i]]
			for j := 0; j < n; j++ {
				rows[i][j] = sigma[order[i]][order[j]]
			}
		}
		return &AlternativesMatrix{Alternatives: &ids, Values: NewMatrix(&rows)}, rows
	}
	fn := DefaultDistillationFunc
	m1, _ := build([]int{0, 1, 2})
	snap := rt.Snapshot(m1.Values)
	asc1, desc1 := *RankAscending(m1, &fn), *RankDescending(m1, &fn)
	rt.Assert("C06.distillation-leaves-the-credibility-matrix-untouched", rt.Same(snap, m1.Values))
	m2, _ := build(perm)
	asc2, desc2 := *RankAscending(m2, &fn), *RankDescending(m2, &fn)
	for i := 0; i < n; i++ {
		rt.Assert("C06.order-invariance.ascending-index", asc2[i] == asc1[perm[i]])
		rt.Assert("C06.order-invariance.descending-index", desc2[i] == desc1[perm[i]])
	}
	if identical {
		rt.Assert("C06.identical-alternatives-get-identical-indices", asc1[1] == asc1[2] && desc1[1] == desc1[2])
	}
	if asc1[0] != asc1[1] || asc1[1] != asc1[2] {
		rt.Reach("several-classes")
	}
}
