//go:build verif

//verif:dir logic/limited-rationality/satisfaction
package satisfaction

import (
	"github.com/Azbesciak/RealDecisionMaker/lib/model"
	vh "github.com/Azbesciak/RealDecisionMaker/lib/zz_vh"
	rt "github.com/Azbesciak/RealDecisionMaker/lib/zz_verifrt"
)

//verif:bounds C13 HC13_acceptance: known alternatives A in 1..3 (quick) / 1..4 (thorough), considered = all or all-but-last, currentChoice absent / first considered / last considered / known-not-considered, K<=2 criteria (first gain or cost, others alternate; the first optionally with a declared symbolic valuesRange), 0..2 (quick) / 0..3 (thorough) explicit levels with free thresholds or a generated series (multiplied / subtractive) with concrete parameters; fixed search order; all values free reals
//verif:bounds C13 HC13_shuffled: seeded-random order (symbolic draws), A<=3, K<=2, explicit levels; order-independent clauses only
//verif:outside C13: symbolic series parameters (C14); sizes beyond the bounds
//verif:assume C13: the threshold list used by the oracle comes from a second instance of the real satisfaction-levels source (its content is the subject of C14)

func c13meets(a *model.AlternativeWithCriteria, crit model.Criteria, t model.Weights) bool {
	ok := true
	for i := range crit {
		c := &crit[i]
		ok = rt.And(ok, vh.Signed(c, a.Criteria[c.Id]) >= vh.Signed(c, t[c.Id]))
	}
	return ok
}

// worst end of the criterion's range: declared range if present, otherwise over all known alternatives
func c13worst(s *c13setup, c *model.Criterion) float64 {
	if c.ValuesRange != nil {
		if c.Type == model.Cost {
			return c.ValuesRange.Max
		}
		return c.ValuesRange.Min
	}
	w := s.known[0].Criteria[c.Id]
	for i := 1; i < len(s.known); i++ {
		v := s.known[i].Criteria[c.Id]
		if c.Type == model.Cost {
			w = rt.IteF(v > w, v, w)
		} else {
			w = rt.IteF(v < w, v, w)
		}
	}
	return w
}

func c13relational(tag string, s *c13setup, r *model.AlternativesRanking) {
	seenLeftover := false
	for i := range *r {
		e := (*r)[i]
		ev := e.Evaluation.(SatisfactionEvaluation)
		a := vh.FindAlt(s.known, e.Alternative.Id)
		if ev.ThresholdsIndex < len(s.levels) {
			rt.Assert(tag+".accepted-before-leftovers", !seenLeftover)
			rt.Assert(tag+".level-index-nonneg", ev.ThresholdsIndex >= 0)
			if ev.ThresholdsIndex < 0 {
				continue
			}
			for ci := range s.crit {
				c := s.crit[ci]
				t, ok := ev.SatisfiedThresholds[c.Id]
				rt.Assert(tag+".reports-threshold-of-its-level", ok && t == s.levels[ev.ThresholdsIndex][c.Id])
			}
			rt.Assert(tag+".really-satisfies", c13meets(a, s.crit, s.levels[ev.ThresholdsIndex]))
			for l := 0; l < ev.ThresholdsIndex; l++ {
				rt.Assert(tag+".failed-earlier-levels", rt.Not(c13meets(a, s.crit, s.levels[l])))
			}
			if i > 0 {
				prev := (*r)[i-1].Evaluation.(SatisfactionEvaluation)
				rt.Assert(tag+".levels-non-decreasing", prev.ThresholdsIndex <= ev.ThresholdsIndex)
			}
		} else {
			seenLeftover = true
			rt.Assert(tag+".leftover-index", ev.ThresholdsIndex == len(s.levels))
			for l := 0; l < len(s.levels); l++ {
				rt.Assert(tag+".leftover-met-no-level", rt.Not(c13meets(a, s.crit, s.levels[l])))
			}
			for ci := range s.crit {
				c := s.crit[ci]
				t, ok := ev.SatisfiedThresholds[c.Id]
				rt.Assert(tag+".leftover-has-threshold", ok)
				rt.Assert(tag+".leftover-worst-of-range", t == c13worst(s, &c))
			}
		}
	}
}

func c13knownFindings(s *c13setup) {
	// see known-findings.json: a current choice taken from choseToMake makes the search-order helper shift the shared considered list
	rt.KnownFinding("KF_C13_current_choice_considered_corrupts_range", s.ccConsidered)
}

//verif:harness HC13_acceptance mode=REAL reach=accepted,accepted-later-level,leftover,cc-considered,cc-notconsidered,declared-range,no-levels
func HC13_acceptance() {
	s := c13build(rt.Pick(3, 4), 2, rt.Pick(2, 3), false)
	c13knownFindings(s)
	h := NewSatisfaction(rt.Generators, c13sources)
	r := h.Evaluate(s.dmp)
	vh.WellFormed("C13.wellformed", r, s.expectedIds)
	c13relational("C13", s, r)
	if s.params.CurrentChoice != "" {
		if s.ccConsidered {
			rt.Reach("cc-considered")
		} else {
			rt.Reach("cc-notconsidered")
		}
	}
	if s.crit[0].ValuesRange != nil {
		rt.Reach("declared-range")
	}
	if len(s.levels) == 0 {
		rt.Reach("no-levels")
	}
	// reference acceptance over plain lists
	remaining := append([]string{}, s.order...)
	type acc struct {
		id    string
		level int
	}
	var accepted []acc
	for l := 0; l < len(s.levels) && len(remaining) > 0; l++ {
		snapshot := append([]string{}, remaining...)
		for _, id := range snapshot {
			if c13meets(vh.FindAlt(s.known, id), s.crit, s.levels[l]) {
				var keep []string
				for _, x := range remaining {
					if x != id {
						keep = append(keep, x)
					}
				}
				remaining = keep
				accepted = append(accepted, acc{id, l})
				rt.Reach("accepted")
				if l > 0 {
					rt.Reach("accepted-later-level")
				}
			}
		}
	}
	if len(remaining) > 0 {
		rt.Reach("leftover")
	}
	rt.Assert("C13.count", len(*r) == len(accepted)+len(remaining))
	if len(*r) != len(accepted)+len(remaining) {
		return
	}
	for i, a := range accepted {
		e := (*r)[i]
		rt.Assert("C13.acceptance-order", e.Alternative.Id == a.id)
		rt.Assert("C13.accepted-level", e.Evaluation.(SatisfactionEvaluation).ThresholdsIndex == a.level)
	}
	var tail []string
	for i := len(accepted); i < len(*r); i++ {
		tail = append(tail, (*r)[i].Alternative.Id)
	}
	rt.Assert("C13.leftovers-last", vh.SameSet(tail, remaining))
}

//verif:harness HC13_shuffled mode=REAL reach=shuffled
func HC13_shuffled() {
	s := c13build(3, 2, 2, true)
	rt.Assume(s.params.Function == "thresholds")
	c13knownFindings(s)
	h := NewSatisfaction(rt.Generators, c13sources)
	r := h.Evaluate(s.dmp)
	vh.WellFormed("C13.shuffled.wellformed", r, s.expectedIds)
	c13relational("C13.shuffled", s, r)
	if len(*r) > 0 && s.params.CurrentChoice != "" {
		// the current choice is examined first: at its level nobody accepted before it
		ev0 := (*r)[vh.IndexOf(r, s.params.CurrentChoice)].Evaluation.(SatisfactionEvaluation)
		for i := 0; i < vh.IndexOf(r, s.params.CurrentChoice); i++ {
			rt.Assert("C13.shuffled.current-choice-first-in-its-level", (*r)[i].Evaluation.(SatisfactionEvaluation).ThresholdsIndex < ev0.ThresholdsIndex)
		}
	}
	rt.Reach("shuffled")
}
