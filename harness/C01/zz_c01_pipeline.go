//go:build verif

//verif:dir zz_pipeline
package zz_pipeline

import (
	vh "github.com/Azbesciak/RealDecisionMaker/lib/zz_vh"
	rt "github.com/Azbesciak/RealDecisionMaker/lib/zz_verifrt"
)

//verif:bounds C01 HC01_pipeline: the real MakeDecision with the service registries: 7 methods x (no bias | one bias variant | thorough: ordered pairs of the draw-free variants), A=3 known alternatives (considered all / all-but-one), K=2, heuristics with currentChoice absent / first listed in choseToMake / known-but-not-considered, two concrete value families, symbolic weights, ratios and draws: every accepted request yields a well-formed result over choseToMake (plus the current choice)

//verif:harness HC01_pipeline mode=REAL reach=answered,cc-outside-chose
func HC01_pipeline() {
	c := ChooseStd(BiasVariants)
	c07known(c.Method, []string{c.Variant})
	dm := c.Build("")
	if rt.Thorough() && c.Variant != "" && !heavyVariant(c.Variant) {
		second := rt.OneOf("second-bias", "none", "criteriaOmission", "preferenceReversal", "anchoring")
		if second != "none" {
			dm.Biases = append(dm.Biases, Bias(second, DefaultProps(second, dm, "b2.")))
		}
	}
	out := Decide(dm)
	if out.Panicked {
		return // an error produced by a combination is C07's subject
	}
	rt.Reach("answered")
	expected := append([]string{}, dm.ChoseToMake...)
	if cc, ok := dm.MethodParameters["currentChoice"].(string); ok && cc != "" && !vh.Contains(expected, cc) {
		expected = append(expected, cc)
		rt.Reach("cc-outside-chose")
	}
	vh.WellFormed("C01.pipeline", &out.Choice.Result, expected)
}

func heavyVariant(v string) bool {
	return !(v == "criteriaOmission" || v == "preferenceReversal" || v == "anchoring")
}
