//go:build verif

//verif:dir zz_vh
package zz_vh

// Helpers shared by the harnesses: request builders and the well-formedness oracle (C01).

import (
	"github.com/Azbesciak/RealDecisionMaker/lib/model"
	rt "github.com/Azbesciak/RealDecisionMaker/lib/zz_verifrt"
)

var AltIds = []string{"a", "b", "c", "d", "e", "f", "g"}
var CritIds = []string{"c1", "c2", "c3", "c4", "c5", "c6", "c7"}

// Criteria builds k criteria; each type is a harness choice (gain/cost) unless fixed is given.
func Criteria(k int, fixed string) model.Criteria {
	cr := make(model.Criteria, k)
	for i := 0; i < k; i++ {
		t := fixed
		if t == "" {
			t = rt.OneOf("type."+CritIds[i], "gain", "cost")
		}
		cr[i] = model.Criterion{Id: CritIds[i], Type: model.CriterionType(t)}
	}
	return cr
}

// Alternatives builds n alternatives with a free value per criterion, named "<prefix><alt>.<crit>".
func Alternatives(prefix string, ids []string, crit model.Criteria) []model.AlternativeWithCriteria {
	out := make([]model.AlternativeWithCriteria, len(ids))
	for i, id := range ids {
		w := make(model.Weights, len(crit))
		for _, c := range crit {
			w[c.Id] = rt.Float(prefix + id + "." + c.Id)
		}
		out[i] = model.AlternativeWithCriteria{Id: id, Criteria: w}
	}
	return out
}

func Weights(prefix string, crit model.Criteria, lo, hi float64) model.Weights {
	w := make(model.Weights, len(crit))
	for _, c := range crit {
		w[c.Id] = rt.FloatIn(prefix+c.Id, lo, hi)
	}
	return w
}

// Params builds the DecisionMakingParams the way MakeDecision's prepareParams does, through the
// exported methods of DecisionMaker (so slices have the capacities they have in the service).
func Params(known []model.AlternativeWithCriteria, chose []string, crit model.Criteria, methodParams interface{}) *model.DecisionMakingParams {
	dm := &model.DecisionMaker{KnownAlternatives: known, ChoseToMake: chose, Criteria: crit}
	return &model.DecisionMakingParams{
		NotConsideredAlternatives: *dm.NotConsideredAlternatives(),
		ConsideredAlternatives:    *dm.AlternativesToConsider(),
		Criteria:                  crit,
		MethodParameters:          methodParams,
	}
}

func Contains(l []string, id string) bool {
	for _, x := range l {
		if x == id {
			return true
		}
	}
	return false
}

func Count(l []string, id string) int {
	n := 0
	for _, x := range l {
		if x == id {
			n++
		}
	}
	return n
}

func IndexOf(r *model.AlternativesRanking, id string) int {
	for i := range *r {
		if (*r)[i].Alternative.Id == id {
			return i
		}
	}
	return -1
}

// WellFormed is the oracle of C01: exactly one entry per expected id and no other entry;
// links name only result members, never the entry itself, never one alternative twice.
func WellFormed(tag string, r *model.AlternativesRanking, expected []string) {
	rt.Assert(tag+".count", len(*r) == len(expected))
	ids := make([]string, 0, len(*r))
	for i := range *r {
		ids = append(ids, (*r)[i].Alternative.Id)
	}
	for _, e := range expected {
		rt.Assert(tag+".each-expected-once", Count(ids, e) == 1)
	}
	for _, id := range ids {
		rt.Assert(tag+".no-foreign-entry", Contains(expected, id))
	}
	for i := range *r {
		e := (*r)[i]
		links := []string(e.BetterThanOrSameAs)
		for _, l := range links {
			rt.Assert(tag+".link-in-result", Contains(ids, l))
			rt.Assert(tag+".link-not-self", l != e.Alternative.Id)
			rt.Assert(tag+".link-no-dup", Count(links, l) == 1)
		}
	}
}

// Reachable returns the ids reachable from id by following betterThanOrSameAs links (excluding id
// itself unless it lies on a cycle).
func Reachable(r *model.AlternativesRanking, id string) []string {
	var seen []string
	work := []string{id}
	for len(work) > 0 {
		cur := work[len(work)-1]
		work = work[:len(work)-1]
		k := IndexOf(r, cur)
		if k < 0 {
			continue
		}
		for _, l := range (*r)[k].BetterThanOrSameAs {
			if !Contains(seen, l) {
				seen = append(seen, l)
				work = append(work, l)
			}
		}
	}
	return seen
}

func SameSet(a, b []string) bool {
	for _, x := range a {
		if !Contains(b, x) {
			return false
		}
	}
	for _, x := range b {
		if !Contains(a, x) {
			return false
		}
	}
	return true
}

// JSONThresholds builds explicit aspiration levels the way encoding/json delivers them:
// {"thresholds": [ {"c1": t, ...}, ... ]} with every threshold a free value "<prefix><level>.<crit>".
func JSONThresholds(prefix string, levels int, crit model.Criteria) map[string]interface{} {
	return JSONThresholdsOpt(prefix, levels, crit, false)
}

func JSONThresholdsOpt(prefix string, levels int, crit model.Criteria, concrete bool) map[string]interface{} {
	ls := make([]interface{}, 0, levels)
	for l := 0; l < levels; l++ {
		m := map[string]interface{}{}
		for _, c := range crit {
			if concrete {
				m[c.Id] = float64(2 + l)
			} else {
				m[c.Id] = rt.Float(prefix + string(rune('0'+l)) + "." + c.Id)
			}
		}
		ls = append(ls, m)
	}
	return map[string]interface{}{"thresholds": ls}
}

// JSONCoefficient builds the parameters of a generated series as JSON delivers them.
func JSONCoefficient(coefficient, minValue, maxValue float64) map[string]interface{} {
	return map[string]interface{}{"coefficient": coefficient, "minValue": minValue, "maxValue": maxValue}
}

// Signed is the preference-oriented value (cost criteria negated).
func Signed(c *model.Criterion, v float64) float64 {
	if c.Type == model.Cost {
		return -v
	}
	return v
}

func FindAlt(known []model.AlternativeWithCriteria, id string) *model.AlternativeWithCriteria {
	for i := range known {
		if known[i].Id == id {
			return &known[i]
		}
	}
	panic("unknown alternative " + id)
}

// RangeOf is the documented range of a criterion: the declared valuesRange if present, otherwise
// the range observed over the given alternatives (as an if-then-else term, no forking).
func RangeOf(c *model.Criterion, alts []model.AlternativeWithCriteria) (float64, float64) {
	if c.ValuesRange != nil {
		return c.ValuesRange.Min, c.ValuesRange.Max
	}
	mn, mx := alts[0].Criteria[c.Id], alts[0].Criteria[c.Id]
	for i := 1; i < len(alts); i++ {
		v := alts[i].Criteria[c.Id]
		mn = rt.IteF(v < mn, v, mn)
		mx = rt.IteF(v > mx, v, mx)
	}
	return mn, mx
}
