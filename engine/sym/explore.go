package sym

import (
	"fmt"
	"os"
	"runtime/debug"
	"sort"
	"sync"
	"time"

	"gosym/smt"

	"golang.org/x/tools/go/ssa"
)

type Config struct {
	Prog     *ssa.Program
	Harness  *ssa.Function
	Scope    string
	Mode     smt.Mode
	Tier     string
	Workers  int
	KnownKF  map[string]bool
	MaxPaths int
	Limits   Limits
	SolverBin  string
	SolverArgs []string
	TimeoutFeasMs int
	TimeoutObMs   int
	KeepScripts   int // number of obligation scripts to keep for cross-checking
	Deadline time.Time
	Replay   []Decision // if set: run exactly this one path
	NoMerge  bool
	Fixed    map[string]string
}

type PathSummary struct {
	ID     int
	End    string
	Detail string
	Decisions int
	PCSize int
	Obligations int
}

type Report struct {
	Harness   string
	Mode      string
	Paths     int
	Ends      map[string]int
	EndDetails map[string]int
	Forks     int
	Merged    int
	ModelHits int
	Steps     int64
	Obligations map[string]map[string]int // assert id -> verdict -> count
	ObTotal   int
	ObDischarged int
	ObUnknown int
	FeasUnknown int
	Violations []Violation
	ViolationCount map[string]int
	KFSeen    map[string]Violation
	Reached   map[string]int
	Solver    smt.Stats
	FnCount   map[string]int
	Samples   []interface{}
	Scripts   []string
	Truncated bool
	Inconclusive []string
	Notes     []string
	WallS     float64
	MaxPC     int
}

type worker struct {
	in *Interp
	s  *smt.Solver
}

// Explore runs the harness over all paths (depth-first, decisions replayed from the start).
func Explore(cfg Config) *Report {
	t0 := time.Now()
	rep := &Report{Harness: cfg.Harness.Name(), Mode: cfg.Mode.String(), Ends: map[string]int{}, EndDetails: map[string]int{},
		Obligations: map[string]map[string]int{}, ViolationCount: map[string]int{}, KFSeen: map[string]Violation{}, Reached: map[string]int{}, FnCount: map[string]int{}}
	if cfg.Workers <= 0 {
		cfg.Workers = 1
	}
	if cfg.MaxPaths <= 0 {
		cfg.MaxPaths = 200000
	}
	if cfg.SolverBin == "" {
		cfg.SolverBin = "z3-new"
		cfg.SolverArgs = []string{"-in"}
	}
	var mu sync.Mutex
	cond := sync.NewCond(&mu)
	type item struct {
		prefix []Decision
		model  smt.Model
	}
	stack := []item{{prefix: cfg.Replay}}
	if cfg.Replay == nil {
		stack = []item{{prefix: []Decision{}}}
	}
	busy := 0
	nextID := 0
	stop := false
	inconc := map[string]bool{}

	var wg sync.WaitGroup
	for w := 0; w < cfg.Workers; w++ {
		wg.Add(1)
		go func() {
			defer wg.Done()
			s, err := smt.NewSolver(cfg.SolverBin, cfg.SolverArgs...)
			if err != nil {
				mu.Lock()
				inconc["cannot start solver: "+err.Error()] = true
				stop = true
				cond.Broadcast()
				mu.Unlock()
				return
			}
			defer s.Close()
			in := NewInterp(cfg.Prog, cfg.Scope)
			in.NoMerge = cfg.NoMerge
			in.Fixed = cfg.Fixed
			if cfg.Limits.MaxSteps > 0 {
				in.Limits = cfg.Limits
			}
			for {
				mu.Lock()
				for len(stack) == 0 && busy > 0 && !stop {
					cond.Wait()
				}
				if stop || (len(stack) == 0 && busy == 0) {
					cond.Broadcast()
					mu.Unlock()
					break
				}
				it := stack[len(stack)-1]
				prefix := it.prefix
				stack = stack[:len(stack)-1]
				busy++
				id := nextID
				nextID++
				mu.Unlock()

				ps := NewPathState(prefix, cfg.KnownKF)
				ps.ID = id
				ps.StartModel = it.model
				if cfg.TimeoutFeasMs > 0 {
					ps.TimeoutFeas = cfg.TimeoutFeasMs
				}
				if cfg.TimeoutObMs > 0 {
					ps.TimeoutOb = cfg.TimeoutObMs
				}
				ps.KeepScripts = cfg.KeepScripts > 0 && id < cfg.KeepScripts*4
				solverBroken := runPath(in, s, cfg, ps)
				if solverBroken {
					s.Close()
					s, err = smt.NewSolver(cfg.SolverBin, cfg.SolverArgs...)
					if err != nil {
						mu.Lock()
						inconc["cannot restart solver"] = true
						stop = true
						busy--
						cond.Broadcast()
						mu.Unlock()
						return
					}
				}

				mu.Lock()
				busy--
				rep.Paths++
				rep.Ends[ps.End]++
				if ps.EndDetail != "" && ps.End != "returned" {
					rep.EndDetails[ps.End+": "+ps.EndDetail]++
				}
				rep.Forks += ps.Forks
				rep.Merged += ps.Merged
				rep.ModelHits += ps.ModelHits
				rep.Steps += int64(in.steps)
				rep.FeasUnknown += ps.Unknowns
				rep.ObUnknown += ps.ObUnknown
				if len(ps.PC) > rep.MaxPC {
					rep.MaxPC = len(ps.PC)
				}
				for _, o := range ps.Obligations {
					if rep.Obligations[o.ID] == nil {
						rep.Obligations[o.ID] = map[string]int{}
					}
					rep.Obligations[o.ID][o.Verdict]++
					rep.ObTotal++
					if o.Verdict == "unsat" || o.Verdict == "concrete-true" {
						rep.ObDischarged++
					}
					if len(rep.Samples) < 6 && (o.Verdict == "unsat" || o.Verdict == "sat") {
						rep.Samples = append(rep.Samples, map[string]interface{}{"obligation": o.ID, "verdict": o.Verdict, "path": id, "path_condition_atoms": o.PCSize,
							"choices": ps.Choices, "solver_ms": o.Ms, "asserted_condition": o.Cond})
					}
				}
				for _, v := range ps.Violations {
					rep.ViolationCount[v.Assert]++
					if rep.ViolationCount[v.Assert] <= 4 {
						rep.Violations = append(rep.Violations, v)
					}
				}
				for k, v := range ps.KFSeen {
					if _, ok := rep.KFSeen[k]; !ok {
						rep.KFSeen[k] = v
					}
				}
				for l := range ps.Reached {
					rep.Reached[l]++
				}
				if len(rep.Scripts) < cfg.KeepScripts {
					for _, sc := range ps.Scripts {
						if len(rep.Scripts) < cfg.KeepScripts {
							rep.Scripts = append(rep.Scripts, sc)
						}
					}
				}
				for _, n := range ps.Notes {
					if len(rep.Notes) < 20 {
						rep.Notes = append(rep.Notes, n)
					}
				}
				switch ps.End {
				case "unsupported", "engine-error", "solver-error":
					inconc[ps.End+": "+ps.EndDetail] = true
				}
				if cfg.Replay == nil {
					// push in reverse so that the first alternative is explored first
					for i := len(ps.Pending) - 1; i >= 0; i-- {
						stack = append(stack, item{ps.Pending[i], ps.PendingModels[i]})
					}
				}
				if rep.Paths >= cfg.MaxPaths || (!cfg.Deadline.IsZero() && time.Now().After(cfg.Deadline)) {
					if len(stack) > 0 || busy > 0 {
						rep.Truncated = true
					}
					stack = nil
					stop = true
				}
				cond.Broadcast()
				mu.Unlock()
			}
			mu.Lock()
			rep.Solver.Queries += s.Stats.Queries
			rep.Solver.Sat += s.Stats.Sat
			rep.Solver.UnsatN += s.Stats.UnsatN
			rep.Solver.UnknownN += s.Stats.UnknownN
			rep.Solver.Errors += s.Stats.Errors
			rep.Solver.Time += s.Stats.Time
			for f, n := range in.FnCount {
				rep.FnCount[f.String()] += n
			}
			mu.Unlock()
		}()
	}
	wg.Wait()
	for k := range inconc {
		rep.Inconclusive = append(rep.Inconclusive, k)
	}
	sort.Strings(rep.Inconclusive)
	rep.WallS = time.Since(t0).Seconds()
	return rep
}

// runPath executes one path; it reports whether the solver process must be restarted.
func runPath(in *Interp, s *smt.Solver, cfg Config, ps *PathState) (solverBroken bool) {
	ctx := smt.NewCtx(cfg.Mode)
	s.Begin(ctx)
	in.ResetPath(ctx, s, ps)
	in.tier = cfg.Tier
	defer func() {
		if r := recover(); r != nil {
			switch e := r.(type) {
			case *GoPanic:
				ps.End = "panicked"
				ps.EndDetail = e.Site
				// an uncaught panic of the program under test is a violation of the implicit "no crash" obligation
				if ps.fresh() || true {
					func() {
						defer func() {
							if r2 := recover(); r2 != nil {
								solverBroken = true
							}
						}()
						_, m := s.CheckModel(ps.TimeoutOb, ctx.Vars)
						ps.Violations = append(ps.Violations, Violation{Assert: "uncaught-panic", Note: e.Error(), Model: ps.modelOf(in, m),
							Decisions: append([]Decision{}, ps.Trace...), PathID: ps.ID, PCSize: len(ps.PC)})
					}()
				}
			case BudgetExceeded:
				ps.End = "budget"
				ps.EndDetail = e.Error()
				func() {
					defer func() {
						if r2 := recover(); r2 != nil {
							solverBroken = true
						}
					}()
					_, m := s.CheckModel(ps.TimeoutOb, ctx.Vars)
					ps.Violations = append(ps.Violations, Violation{Assert: "budget", Note: e.Error(), Model: ps.modelOf(in, m),
						Decisions: append([]Decision{}, ps.Trace...), PathID: ps.ID, PCSize: len(ps.PC)})
				}()
			case Infeasible:
				ps.End = "infeasible"
				ps.EndDetail = e.Why
			case Unsupported:
				ps.End = "unsupported"
				ps.EndDetail = e.What
			case smt.SolverError:
				ps.End = "solver-error"
				ps.EndDetail = e.Msg
				solverBroken = true
			default:
				ps.End = "engine-error"
				ps.EndDetail = fmt.Sprint(r)
				if os.Getenv("GOSYM_TRACE") != "" {
					fmt.Fprintf(os.Stderr, "engine error: %v\n%s\n", r, debug.Stack())
				}
				solverBroken = true
			}
		}
	}()
	root := cfg.Harness
	if root.Pkg != nil {
		in.InitPackage(root.Pkg)
	}
	in.epoch = 1
	in.Call(root, nil, nil)
	ps.End = "returned"
	return false
}
