//go:build verif

//verif:dir logic/preference-func/weighted-sum
package weighted_sum

import (
	"math"

	"github.com/Azbesciak/RealDecisionMaker/lib/model"
	vh "github.com/Azbesciak/RealDecisionMaker/lib/zz_vh"
	rt "github.com/Azbesciak/RealDecisionMaker/lib/zz_verifrt"
)

//verif:bounds C03 HC03_wsum_after_bias: the weighted sum evaluated on the parameters its bias listener produces when criteria are removed (K=3, any non-empty proper subset kept) or a criterion is added and merged (K=2 plus one): the value must be the weighted sum of the final values under the final weights (known finding: weights ignored)

//verif:harness HC03_wsum_after_bias mode=REAL reach=removed,added
func HC03_wsum_after_bias() {
	mode := rt.OneOf("bias-effect", "removed", "added")
	K := 3
	if mode == "added" {
		K = 2
	}
	crit := vh.Criteria(K, "")
	known := vh.Alternatives("", vh.AltIds[:2], crit)
	w := map[string]interface{}{}
	anyNotOne := false
	for _, c := range crit {
		x := rt.FloatIn("w."+c.Id, -4, 4)
		w[c.Id] = x
		anyNotOne = rt.Or(anyNotOne, x != 1)
	}
	dm := &model.DecisionMaker{PreferenceFunction: "weightedSum", KnownAlternatives: known, ChoseToMake: []string{"b", "a"}, Criteria: crit,
		MethodParameters: map[string]interface{}{"weights": w}}
	f := &WeightedSumPreferenceFunc{}
	params := f.ParseParams(dm)
	l := &WeightedSumBiasListener{}
	var final model.Criteria
	var after interface{}
	alts := known
	finalW := map[string]float64{}
	if mode == "removed" {
		rt.Reach("removed")
		rot := rt.IntRange("rotation", 0, K-1)
		drop := rt.IntRange("dropped", 1, K-1)
		for i := drop; i < K; i++ {
			final = append(final, crit[(i+rot)%K])
		}
		after = l.OnCriteriaRemoved(&final, params)
		alts = *model.PreserveCriteriaForAlternatives(&known, &final)
		for _, c := range final {
			finalW[c.Id] = w[c.Id].(float64)
		}
	} else {
		rt.Reach("added")
		nc := model.Criterion{Id: "zz_new", Type: model.Gain}
		gen := rt.Generators(42)
		added := l.OnCriterionAdded(&nc, &crit[0], params, gen)
		after = l.Merge(params, added)
		final = crit.Add(&nc)
		alts = *model.AddCriterionToAlternatives(&known, &nc, func(a *model.AlternativeWithCriteria) model.Weight { return rt.Float(a.Id + ".new") })
		for _, c := range crit {
			finalW[c.Id] = w[c.Id].(float64)
		}
		nw := rt.Generators(42)() * w[crit[0].Id].(float64)
		finalW["zz_new"] = nw
		anyNotOne = rt.Or(anyNotOne, nw != 1)
	}
	rt.KnownFinding("KF_C03_weighted_sum_ignores_weights", anyNotOne)
	dmp := vh.Params(alts, dm.ChoseToMake, final, after)
	r := f.Evaluate(dmp)
	vh.WellFormed("C03.wsum.post.wellformed", r, dm.ChoseToMake)
	for i := range *r {
		a := vh.FindAlt(alts, (*r)[i].Alternative.Id)
		ref := 0.0
		for ci := range final {
			c := final[ci]
			ref += finalW[c.Id] * vh.Signed(&c, a.Criteria[c.Id])
		}
		u := WeightedSum(*a, *after.(weightedSumParams).weightedCriteria).Value()
		rt.Assert("C03.wsum.post-bias-value-is-weighted-sum", u == ref)
		rt.Assert("C03.wsum.post-bias-reported-is-rounded-aggregate", (*r)[i].Value() == math.Round(u*1e8)/1e8)
	}
}
