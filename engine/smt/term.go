// Package smt holds the term DAG that the symbolic executor builds and the
// printers that turn it into SMT-LIB2 (REAL: floats as mathematical reals, FP: IEEE-754
// binary64). Terms are hash-consed per Ctx.
package smt

import (
	"fmt"
	"math"
	"math/big"
	"strings"
)

type Sort uint8

const (
	SBool Sort = iota
	SNum       // float64 in the program: Real (REAL mode) or (_ FloatingPoint 11 53) (FP mode)
)

type Op uint8

const (
	OVar Op = iota
	OConstB
	OConstN
	OAdd
	OSub
	OMul
	ODiv
	ONeg
	OAbs
	OFloor // math.Floor
	ORound // math.Round (half away from zero)
	OLt
	OLe
	OEq // numeric equality (Go ==)
	OBEq // boolean equivalence
	ONot
	OAnd
	OOr
	OIte
	OUF // uninterpreted function Num^n -> Num
	OFromInt // not used for symbolic ints (there are none); reserved
)

var opName = map[Op]string{OAdd: "+", OSub: "-", OMul: "*", ODiv: "/", ONeg: "neg", OAbs: "abs", OFloor: "floor",
	ORound: "round", OLt: "<", OLe: "<=", OEq: "==", OBEq: "<=>", ONot: "not", OAnd: "and", OOr: "or", OIte: "ite", OUF: "uf"}

type Term struct {
	Op   Op
	Sort Sort
	Args []*Term
	Name string
	F    float64
	R    *big.Rat // exact value of a numeric constant that is not a float64 (REAL mode only); F is then the nearest float64
	B    bool
	ID   int
}

func (t *Term) IsConst() bool { return t.Op == OConstB || t.Op == OConstN }

func (t *Term) String() string {
	switch t.Op {
	case OVar:
		return t.Name
	case OConstB:
		return fmt.Sprint(t.B)
	case OConstN:
		return fmt.Sprint(t.F)
	}
	var sb strings.Builder
	sb.WriteString("(")
	if t.Op == OUF {
		sb.WriteString(t.Name)
	} else {
		sb.WriteString(opName[t.Op])
	}
	for _, a := range t.Args {
		sb.WriteString(" ")
		if sb.Len() > 400 {
			sb.WriteString("…")
			break
		}
		sb.WriteString(a.String())
	}
	sb.WriteString(")")
	return sb.String()
}

type Mode uint8

const (
	REAL Mode = iota
	FP
)

func (m Mode) String() string {
	if m == FP {
		return "FP"
	}
	return "REAL"
}

type Ctx struct {
	Mode  Mode
	table map[string]*Term
	next  int
	True  *Term
	False *Term
	Vars  []*Term // in creation order
	UFs   map[string]int
}

func NewCtx(m Mode) *Ctx {
	c := &Ctx{Mode: m, table: map[string]*Term{}, UFs: map[string]int{}}
	c.True = c.mk(&Term{Op: OConstB, Sort: SBool, B: true})
	c.False = c.mk(&Term{Op: OConstB, Sort: SBool, B: false})
	return c
}

func (c *Ctx) key(t *Term) string {
	var sb strings.Builder
	fmt.Fprintf(&sb, "%d|%d|%s|%x|%v", t.Op, t.Sort, t.Name, math.Float64bits(t.F), t.B)
	if t.R != nil {
		sb.WriteString("|r" + t.R.RatString())
	}
	for _, a := range t.Args {
		fmt.Fprintf(&sb, "|%d", a.ID)
	}
	return sb.String()
}

func (c *Ctx) mk(t *Term) *Term {
	k := c.key(t)
	if e, ok := c.table[k]; ok {
		return e
	}
	t.ID = c.next
	c.next++
	c.table[k] = t
	if t.Op == OVar {
		c.Vars = append(c.Vars, t)
	}
	return t
}

func (c *Ctx) NumTerms() int { return c.next }

func (c *Ctx) Var(name string, s Sort) *Term { return c.mk(&Term{Op: OVar, Sort: s, Name: name}) }
func (c *Ctx) Bool(b bool) *Term {
	if b {
		return c.True
	}
	return c.False
}
func (c *Ctx) Num(f float64) *Term { return c.mk(&Term{Op: OConstN, Sort: SNum, F: f}) }

// Rat makes an exact rational constant (REAL mode); it collapses to a float64 constant when exactly representable.
func (c *Ctx) Rat(r *big.Rat) *Term {
	f, exact := r.Float64()
	if exact {
		return c.Num(f)
	}
	return c.mk(&Term{Op: OConstN, Sort: SNum, F: f, R: new(big.Rat).Set(r)})
}

// cmpConst compares two numeric constants exactly.
func cmpConst(a, b *Term) int {
	if a.R == nil && b.R == nil {
		switch {
		case a.F < b.F:
			return -1
		case a.F > b.F:
			return 1
		}
		return 0
	}
	ra, rb := a.R, b.R
	if ra == nil {
		ra = new(big.Rat)
		ra.SetFloat64(a.F)
	}
	if rb == nil {
		rb = new(big.Rat)
		rb.SetFloat64(b.F)
	}
	return ra.Cmp(rb)
}

func constRat(t *Term) *big.Rat {
	if t.R != nil {
		return t.R
	}
	r := new(big.Rat)
	if r.SetFloat64(t.F) == nil {
		return nil
	}
	return r
}

// foldReal folds an arithmetic operation on two constants exactly (REAL mode).
func (c *Ctx) foldReal(op Op, a, b *Term) *Term {
	if c.Mode != REAL || a.Op != OConstN || b.Op != OConstN {
		return nil
	}
	ra, rb := constRat(a), constRat(b)
	if ra == nil || rb == nil {
		return nil
	}
	r := new(big.Rat)
	switch op {
	case OAdd:
		r.Add(ra, rb)
	case OSub:
		r.Sub(ra, rb)
	case OMul:
		r.Mul(ra, rb)
	case ODiv:
		if rb.Sign() == 0 {
			return nil
		}
		r.Quo(ra, rb)
	default:
		return nil
	}
	return c.Rat(r)
}

func (c *Ctx) n(op Op, s Sort, args ...*Term) *Term {
	return c.mk(&Term{Op: op, Sort: s, Args: args})
}

func (c *Ctx) Add(a, b *Term) *Term {
	if f := c.foldReal(OAdd, a, b); f != nil {
		return f
	}
	if c.Mode == REAL {
		if a.Op == OConstN && a.R == nil && a.F == 0 {
			return b
		}
		if b.Op == OConstN && b.R == nil && b.F == 0 {
			return a
		}
	}
	return c.n(OAdd, SNum, a, b)
}
func (c *Ctx) Sub(a, b *Term) *Term {
	if f := c.foldReal(OSub, a, b); f != nil {
		return f
	}
	if c.Mode == REAL {
		if b.Op == OConstN && b.R == nil && b.F == 0 {
			return a
		}
		if a == b {
			return c.Num(0)
		}
	}
	return c.n(OSub, SNum, a, b)
}
func (c *Ctx) Mul(a, b *Term) *Term {
	if f := c.foldReal(OMul, a, b); f != nil {
		return f
	}
	if a.Op == OConstN && a.R == nil && a.F == 1 {
		return b
	}
	if b.Op == OConstN && b.R == nil && b.F == 1 {
		return a
	}
	if a.Op == OConstN && a.R == nil && a.F == -1 {
		return c.Neg(b)
	}
	if b.Op == OConstN && b.R == nil && b.F == -1 {
		return c.Neg(a)
	}
	if c.Mode == REAL {
		if (a.Op == OConstN && a.R == nil && a.F == 0) || (b.Op == OConstN && b.R == nil && b.F == 0) {
			return c.Num(0)
		}
	}
	// canonical operand order (multiplication is commutative in both modes)
	if a.ID > b.ID {
		a, b = b, a
	}
	return c.n(OMul, SNum, a, b)
}
func (c *Ctx) Div(a, b *Term) *Term {
	if f := c.foldReal(ODiv, a, b); f != nil {
		return f
	}
	if b.Op == OConstN && b.R == nil && b.F == 1 {
		return a
	}
	return c.n(ODiv, SNum, a, b)
}
func (c *Ctx) Neg(a *Term) *Term {
	if a.Op == ONeg {
		return a.Args[0]
	}
	if a.Op == OConstN {
		if a.R != nil {
			return c.Rat(new(big.Rat).Neg(a.R))
		}
		return c.Num(-a.F)
	}
	return c.n(ONeg, SNum, a)
}
func (c *Ctx) Abs(a *Term) *Term {
	if a.Op == OConstN {
		if a.R != nil {
			return c.Rat(new(big.Rat).Abs(a.R))
		}
		return c.Num(math.Abs(a.F))
	}
	return c.n(OAbs, SNum, a)
}
func (c *Ctx) Floor(a *Term) *Term {
	if a.Op == OConstN && a.R == nil {
		return c.Num(math.Floor(a.F))
	}
	return c.n(OFloor, SNum, a)
}
func (c *Ctx) Round(a *Term) *Term {
	if a.Op == OConstN && a.R == nil {
		return c.Num(math.Round(a.F))
	}
	return c.n(ORound, SNum, a)
}
func (c *Ctx) Lt(a, b *Term) *Term {
	if a.Op == OConstN && b.Op == OConstN {
		if a.R != nil || b.R != nil {
			return c.Bool(cmpConst(a, b) < 0)
		}
		return c.Bool(a.F < b.F)
	}
	if a == b {
		return c.False
	}
	return c.n(OLt, SBool, a, b)
}
func (c *Ctx) Le(a, b *Term) *Term {
	if a.Op == OConstN && b.Op == OConstN {
		if a.R != nil || b.R != nil {
			return c.Bool(cmpConst(a, b) <= 0)
		}
		return c.Bool(a.F <= b.F)
	}
	if c.Mode == REAL {
		if a == b {
			return c.True
		}
		// a <= b  ==  not (b < a) for reals: one canonical atom per pair
		return c.Not(c.Lt(b, a))
	}
	return c.n(OLe, SBool, a, b)
}
func (c *Ctx) Gt(a, b *Term) *Term { return c.Lt(b, a) }
func (c *Ctx) Ge(a, b *Term) *Term { return c.Le(b, a) }
func (c *Ctx) Eq(a, b *Term) *Term {
	if a.Op == OConstN && b.Op == OConstN {
		if a.R != nil || b.R != nil {
			return c.Bool(cmpConst(a, b) == 0)
		}
		return c.Bool(a.F == b.F)
	}
	if a == b && c.Mode == REAL {
		return c.True
	}
	if a.ID > b.ID {
		a, b = b, a
	}
	return c.n(OEq, SBool, a, b)
}
func (c *Ctx) Ne(a, b *Term) *Term { return c.Not(c.Eq(a, b)) }

func (c *Ctx) Not(a *Term) *Term {
	if a.Op == OConstB {
		return c.Bool(!a.B)
	}
	if a.Op == ONot {
		return a.Args[0]
	}
	return c.n(ONot, SBool, a)
}
func (c *Ctx) And(a, b *Term) *Term {
	if a.Op == OConstB {
		if a.B {
			return b
		}
		return c.False
	}
	if b.Op == OConstB {
		if b.B {
			return a
		}
		return c.False
	}
	if a == b {
		return a
	}
	return c.n(OAnd, SBool, a, b)
}
func (c *Ctx) Or(a, b *Term) *Term {
	if a.Op == OConstB {
		if a.B {
			return c.True
		}
		return b
	}
	if b.Op == OConstB {
		if b.B {
			return c.True
		}
		return a
	}
	if a == b {
		return a
	}
	return c.n(OOr, SBool, a, b)
}
func (c *Ctx) BEq(a, b *Term) *Term {
	if a == b {
		return c.True
	}
	if a.Op == OConstB {
		if a.B {
			return b
		}
		return c.Not(b)
	}
	if b.Op == OConstB {
		if b.B {
			return a
		}
		return c.Not(a)
	}
	return c.n(OBEq, SBool, a, b)
}
func (c *Ctx) Ite(cond, a, b *Term) *Term {
	if cond.Op == OConstB {
		if cond.B {
			return a
		}
		return b
	}
	if a == b {
		return a
	}
	if a.Sort == SBool {
		if a.Op == OConstB && b.Op == OConstB {
			if a.B {
				return cond
			}
			return c.Not(cond)
		}
	}
	if cond.Op == ONot {
		return c.n(OIte, a.Sort, cond.Args[0], b, a)
	}
	return c.n(OIte, a.Sort, cond, a, b)
}
func (c *Ctx) UF(name string, args ...*Term) *Term {
	c.UFs[name] = len(args)
	return c.mk(&Term{Op: OUF, Sort: SNum, Name: name, Args: args})
}

// ---------------------------------------------------------------------------------------
// Printing

func (c *Ctx) SortName(s Sort) string {
	if s == SBool {
		return "Bool"
	}
	if c.Mode == FP {
		return "(_ FloatingPoint 11 53)"
	}
	return "Real"
}

func ratString(f float64) string {
	if f == math.Trunc(f) && math.Abs(f) < 1e15 {
		if f < 0 {
			return fmt.Sprintf("(- %d.0)", int64(-f))
		}
		return fmt.Sprintf("%d.0", int64(f))
	}
	r := new(big.Rat)
	if r.SetFloat64(f) == nil {
		panic(fmt.Sprintf("non-finite constant %v in REAL term", f))
	}
	num, den := r.Num(), r.Denom()
	if num.Sign() < 0 {
		return fmt.Sprintf("(- (/ %s.0 %s.0))", new(big.Int).Neg(num).String(), den.String())
	}
	return fmt.Sprintf("(/ %s.0 %s.0)", num.String(), den.String())
}

func bigRatString(r *big.Rat) string {
	num, den := r.Num(), r.Denom()
	if num.Sign() < 0 {
		return fmt.Sprintf("(- (/ %s.0 %s.0))", new(big.Int).Neg(num).String(), den.String())
	}
	return fmt.Sprintf("(/ %s.0 %s.0)", num.String(), den.String())
}

func fpString(f float64) string {
	b := math.Float64bits(f)
	return fmt.Sprintf("(fp #b%01b #b%011b #b%052b)", b>>63, (b>>52)&0x7ff, b&((1<<52)-1))
}

func SymName(name string) string {
	return "|" + strings.NewReplacer("|", "_", "\\", "_").Replace(name) + "|"
}

// Ref is how a term is referenced inside other terms once it has been defined.
func (c *Ctx) Ref(t *Term) string {
	switch t.Op {
	case OVar:
		return SymName(t.Name)
	case OConstB:
		if t.B {
			return "true"
		}
		return "false"
	case OConstN:
		if c.Mode == FP {
			return fpString(t.F)
		}
		if t.R != nil {
			return bigRatString(t.R)
		}
		return ratString(t.F)
	}
	return fmt.Sprintf("t%d", t.ID)
}

// Body renders the defining expression of a non-leaf term in terms of Refs of its arguments.
func (c *Ctx) Body(t *Term) string {
	a := make([]string, len(t.Args))
	for i, x := range t.Args {
		a[i] = c.Ref(x)
	}
	if c.Mode == FP {
		switch t.Op {
		case OAdd:
			return fmt.Sprintf("(fp.add RNE %s %s)", a[0], a[1])
		case OSub:
			return fmt.Sprintf("(fp.sub RNE %s %s)", a[0], a[1])
		case OMul:
			return fmt.Sprintf("(fp.mul RNE %s %s)", a[0], a[1])
		case ODiv:
			return fmt.Sprintf("(fp.div RNE %s %s)", a[0], a[1])
		case ONeg:
			return fmt.Sprintf("(fp.neg %s)", a[0])
		case OAbs:
			return fmt.Sprintf("(fp.abs %s)", a[0])
		case OFloor:
			return fmt.Sprintf("(fp.roundToIntegral RTN %s)", a[0])
		case ORound:
			return fmt.Sprintf("(fp.roundToIntegral RNA %s)", a[0])
		case OLt:
			return fmt.Sprintf("(fp.lt %s %s)", a[0], a[1])
		case OLe:
			return fmt.Sprintf("(fp.leq %s %s)", a[0], a[1])
		case OEq:
			return fmt.Sprintf("(fp.eq %s %s)", a[0], a[1])
		}
	} else {
		switch t.Op {
		case OAdd:
			return fmt.Sprintf("(+ %s %s)", a[0], a[1])
		case OSub:
			return fmt.Sprintf("(- %s %s)", a[0], a[1])
		case OMul:
			return fmt.Sprintf("(* %s %s)", a[0], a[1])
		case ODiv:
			return fmt.Sprintf("(/ %s %s)", a[0], a[1])
		case ONeg:
			return fmt.Sprintf("(- %s)", a[0])
		case OAbs:
			return fmt.Sprintf("(ite (>= %s 0.0) %s (- %s))", a[0], a[0], a[0])
		case OFloor:
			return fmt.Sprintf("(to_real (to_int %s))", a[0])
		case ORound:
			return fmt.Sprintf("(ite (>= %s 0.0) (to_real (to_int (+ %s 0.5))) (- (to_real (to_int (+ (- %s) 0.5)))))", a[0], a[0], a[0])
		case OLt:
			return fmt.Sprintf("(< %s %s)", a[0], a[1])
		case OLe:
			return fmt.Sprintf("(<= %s %s)", a[0], a[1])
		case OEq:
			return fmt.Sprintf("(= %s %s)", a[0], a[1])
		}
	}
	switch t.Op {
	case OBEq:
		return fmt.Sprintf("(= %s %s)", a[0], a[1])
	case ONot:
		return fmt.Sprintf("(not %s)", a[0])
	case OAnd:
		return fmt.Sprintf("(and %s %s)", a[0], a[1])
	case OOr:
		return fmt.Sprintf("(or %s %s)", a[0], a[1])
	case OIte:
		return fmt.Sprintf("(ite %s %s %s)", a[0], a[1], a[2])
	case OUF:
		return fmt.Sprintf("(%s %s)", SymName(t.Name), strings.Join(a, " "))
	}
	panic(fmt.Sprintf("smt: cannot print op %d", t.Op))
}

// Eval evaluates a term under a concrete assignment (used to double check models and to
// build replay values). Unknown variables evaluate through the supplied function.
func (c *Ctx) Eval(t *Term, numVar func(string) float64, boolVar func(string) bool) (float64, bool) {
	memo := map[*Term][2]interface{}{}
	var ev func(t *Term) (float64, bool)
	ev = func(t *Term) (float64, bool) {
		if m, ok := memo[t]; ok {
			return m[0].(float64), m[1].(bool)
		}
		var f float64
		var b bool
		switch t.Op {
		case OVar:
			if t.Sort == SBool {
				b = boolVar(t.Name)
			} else {
				f = numVar(t.Name)
			}
		case OConstB:
			b = t.B
		case OConstN:
			f = t.F
		case OAdd, OSub, OMul, ODiv, OLt, OLe, OEq:
			x, _ := ev(t.Args[0])
			y, _ := ev(t.Args[1])
			switch t.Op {
			case OAdd:
				f = x + y
			case OSub:
				f = x - y
			case OMul:
				f = x * y
			case ODiv:
				f = x / y
			case OLt:
				b = x < y
			case OLe:
				b = x <= y
			case OEq:
				b = x == y
			}
		case ONeg:
			x, _ := ev(t.Args[0])
			f = -x
		case OAbs:
			x, _ := ev(t.Args[0])
			f = math.Abs(x)
		case OFloor:
			x, _ := ev(t.Args[0])
			f = math.Floor(x)
		case ORound:
			x, _ := ev(t.Args[0])
			f = math.Round(x)
		case ONot:
			_, x := ev(t.Args[0])
			b = !x
		case OAnd:
			_, x := ev(t.Args[0])
			_, y := ev(t.Args[1])
			b = x && y
		case OOr:
			_, x := ev(t.Args[0])
			_, y := ev(t.Args[1])
			b = x || y
		case OBEq:
			_, x := ev(t.Args[0])
			_, y := ev(t.Args[1])
			b = x == y
		case OIte:
			_, cnd := ev(t.Args[0])
			if cnd {
				f, b = ev(t.Args[1])
			} else {
				f, b = ev(t.Args[2])
			}
		case OUF:
			if t.Name == "exp" {
				x, _ := ev(t.Args[0])
				f = math.Exp(x)
			} else {
				f = math.NaN()
			}
		}
		memo[t] = [2]interface{}{f, b}
		return f, b
	}
	return ev(t)
}

// EvalExact evaluates a term under an exact rational assignment (REAL semantics). ok=false
// when the value cannot be computed exactly (uninterpreted function, division by zero,
// missing variable).
func (c *Ctx) EvalExact(t *Term, num func(string) (*big.Rat, bool), boolv func(string) (bool, bool)) (*big.Rat, bool, bool) {
	type res struct {
		r  *big.Rat
		b  bool
		ok bool
	}
	memo := map[*Term]res{}
	var ev func(t *Term) res
	ev = func(t *Term) res {
		if m, ok := memo[t]; ok {
			return m
		}
		var out res
		out.ok = true
		bin := func() (res, res, bool) {
			x, y := ev(t.Args[0]), ev(t.Args[1])
			return x, y, x.ok && y.ok
		}
		switch t.Op {
		case OVar:
			if t.Sort == SBool {
				out.b, out.ok = boolv(t.Name)
			} else {
				out.r, out.ok = num(t.Name)
			}
		case OConstB:
			out.b = t.B
		case OConstN:
			if t.R != nil {
				out.r = t.R
			} else {
				out.r = new(big.Rat)
				if out.r.SetFloat64(t.F) == nil {
					out.ok = false
				}
			}
		case OAdd, OSub, OMul, ODiv, OLt, OLe, OEq:
			x, y, ok := bin()
			if !ok {
				out.ok = false
				break
			}
			switch t.Op {
			case OAdd:
				out.r = new(big.Rat).Add(x.r, y.r)
			case OSub:
				out.r = new(big.Rat).Sub(x.r, y.r)
			case OMul:
				out.r = new(big.Rat).Mul(x.r, y.r)
			case ODiv:
				if y.r.Sign() == 0 {
					out.ok = false
				} else {
					out.r = new(big.Rat).Quo(x.r, y.r)
				}
			case OLt:
				out.b = x.r.Cmp(y.r) < 0
			case OLe:
				out.b = x.r.Cmp(y.r) <= 0
			case OEq:
				out.b = x.r.Cmp(y.r) == 0
			}
		case ONeg:
			x := ev(t.Args[0])
			if !x.ok {
				out.ok = false
				break
			}
			out.r = new(big.Rat).Neg(x.r)
		case OAbs:
			x := ev(t.Args[0])
			if !x.ok {
				out.ok = false
				break
			}
			out.r = new(big.Rat).Abs(x.r)
		case OFloor, ORound:
			x := ev(t.Args[0])
			if !x.ok {
				out.ok = false
				break
			}
			fl := func(r *big.Rat) *big.Rat {
				q := new(big.Int)
				m := new(big.Int)
				q.DivMod(r.Num(), r.Denom(), m) // Euclidean: floor for positive denominators
				return new(big.Rat).SetInt(q)
			}
			if t.Op == OFloor {
				out.r = fl(x.r)
			} else {
				half := big.NewRat(1, 2)
				if x.r.Sign() >= 0 {
					out.r = fl(new(big.Rat).Add(x.r, half))
				} else {
					out.r = new(big.Rat).Neg(fl(new(big.Rat).Add(new(big.Rat).Neg(x.r), half)))
				}
			}
		case ONot:
			x := ev(t.Args[0])
			out.b, out.ok = !x.b, x.ok
		case OAnd:
			x, y, ok := bin()
			out.b, out.ok = x.b && y.b, ok
			if x.ok && !x.b || y.ok && !y.b {
				out.b, out.ok = false, true
			}
		case OOr:
			x, y, ok := bin()
			out.b, out.ok = x.b || y.b, ok
			if x.ok && x.b || y.ok && y.b {
				out.b, out.ok = true, true
			}
		case OBEq:
			x, y, ok := bin()
			out.b, out.ok = x.b == y.b, ok
		case OIte:
			cnd := ev(t.Args[0])
			if !cnd.ok {
				out.ok = false
				break
			}
			if cnd.b {
				out = ev(t.Args[1])
			} else {
				out = ev(t.Args[2])
			}
		default:
			out.ok = false
		}
		memo[t] = out
		return out
	}
	r := ev(t)
	return r.r, r.b, r.ok
}
