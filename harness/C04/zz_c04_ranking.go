//go:build verif

//verif:dir model
package model

import (
	"sort"
	rt "github.com/Azbesciak/RealDecisionMaker/lib/zz_verifrt"
)

//verif:bounds C04 HC04_ranking_spec: A alternatives, quick A<=4, thorough A<=5; ids listed in 3 different orders (id order != list order); every value a free real; 1e-8 rounding exact (to_int)
//verif:bounds C04 HC04_permutation: A<=4 (quick) / A<=5 (thorough) alternatives ranked through Rank() in request order and in a second order chosen among all permutations (A<=4) or rotations+reversal+swaps (A=5)
//verif:outside C04: more alternatives than the bound; sort sizes > 12 use a different std algorithm
//verif:assume C04: reported values are the values after the API's 1e-8 rounding; utilities are finite

var c04ids = [][]string{
	{"a", "b", "c", "d", "e", "f"},
	{"f", "e", "d", "c", "b", "a"},
	{"c", "a", "e", "b", "f", "d"},
}

func c04contains(l Alternatives, id string) bool {
	for _, x := range l {
		if x == id {
			return true
		}
	}
	return false
}

func c04count(l Alternatives, id string) int {
	n := 0
	for _, x := range l {
		if x == id {
			n++
		}
	}
	return n
}

// c04spec asserts the relational specification of the statement on a finished ranking.
func c04spec(tag string, r *AlternativesRanking, n int) {
	rt.Assert(tag+".len", len(*r) == n)
	for i := 0; i+1 < len(*r); i++ {
		vi, vj := (*r)[i].Value(), (*r)[i+1].Value()
		rt.Assert(tag+".order", vi >= vj)
		rt.Assert(tag+".tie-by-id", rt.Implies(vi == vj, (*r)[i].Alternative.Id < (*r)[i+1].Alternative.Id))
	}
	for i := range *r {
		a := (*r)[i]
		va := a.Value()
		rt.Assert(tag+".no-self", !c04contains(a.BetterThanOrSameAs, a.Alternative.Id))
		for j := range *r {
			if i == j {
				continue
			}
			b := (*r)[j]
			vb := b.Value()
			// b holds the next lower distinct value: lower, and nothing strictly between
			nothingBetween := true
			for k := range *r {
				vc := (*r)[k].Value()
				nothingBetween = rt.And(nothingBetween, rt.Not(rt.And(vc < va, vc > vb)))
			}
			expected := rt.Or(vb == va, rt.And(vb < va, nothingBetween))
			has := c04contains(a.BetterThanOrSameAs, b.Alternative.Id)
			rt.Assert(tag+".links", rt.Iff(has, expected))
			rt.Assert(tag+".no-dup", c04count(a.BetterThanOrSameAs, b.Alternative.Id) <= 1)
		}
	}
}

//verif:harness HC04_ranking_spec mode=REAL reach=tie,distinct,three-levels
func HC04_ranking_spec() {
	A := rt.IntRange("A", 1, rt.Pick(4, 5))
	ord := rt.IntRange("idorder", 0, 2)
	results := make(AlternativeResults, A)
	for i := 0; i < A; i++ {
		alt := AlternativeWithCriteria{Id: c04ids[ord][i], Criteria: Weights{}}
		results[i] = *ValueAlternativeResult(&alt, rt.Float("v"+c04ids[0][i]))
	}
	r := results.Ranking()
	c04spec("C04.spec", r, A)
	// reported value = 1e-8 rounding of the utility: |reported - v| <= 0.5e-8
	for i := range *r {
		for j := 0; j < A; j++ {
			if results[j].Alternative.Id == (*r)[i].Alternative.Id {
				d := (*r)[i].Value() - results[j].Value()
				rt.Assert("C04.rounded-value", rt.And(d <= 0.5e-8, d >= -0.5e-8))
				rt.Observe("value."+(*r)[i].Alternative.Id, (*r)[i].Value())
			}
		}
		rt.ObserveS("pos", (*r)[i].Alternative.Id)
	}
	// the input list is not reordered or modified
	for i := 0; i < A; i++ {
		rt.Assert("C04.input-untouched", results[i].Alternative.Id == c04ids[ord][i])
	}
	if A >= 2 {
		if len((*r)[0].BetterThanOrSameAs) >= 1 {
			rt.Reach("linked")
		}
	}
	if A >= 3 {
		v0, v1, v2 := (*r)[0].Value(), (*r)[1].Value(), (*r)[2].Value()
		if v0 == v1 {
			rt.Reach("tie")
		}
		if v0 > v1 && v1 > v2 {
			rt.Reach("three-levels")
		}
		if v0 != v1 {
			rt.Reach("distinct")
		}
	}
}

func c04linkSetEqual(a, b Alternatives) bool {
	if len(a) != len(b) {
		return false
	}
	for _, x := range a {
		if !c04contains(b, x) {
			return false
		}
	}
	return true
}

var c04perms5 = [][]int{{1, 2, 3, 4, 0}, {4, 3, 2, 1, 0}, {1, 0, 2, 3, 4}, {0, 1, 2, 4, 3}, {2, 0, 4, 1, 3}, {4, 0, 1, 2, 3}, {0, 2, 1, 3, 4}}

func c04perm(n, k int) []int {
	// k-th permutation of 0..n-1 in lexicographic order (n <= 4), a fixed generating family for n = 5
	if n == 5 {
		return c04perms5[k]
	}
	avail := []int{}
	for i := 0; i < n; i++ {
		avail = append(avail, i)
	}
	fact := 1
	for i := 2; i < n; i++ {
		fact *= i
	}
	out := []int{}
	for i := n - 1; i >= 0; i-- {
		idx := 0
		if fact > 0 {
			idx = k / fact
			k = k % fact
		}
		out = append(out, avail[idx])
		avail = append(avail[:idx], avail[idx+1:]...)
		if i > 0 {
			fact /= i
		}
	}
	return out
}

//verif:harness HC04_permutation mode=REAL reach=perm-nontrivial
func HC04_permutation() {
	A := rt.IntRange("A", 2, rt.Pick(4, 5))
	nperm := 1
	for i := 2; i <= A; i++ {
		nperm *= i
	}
	if A == 5 {
		nperm = len(c04perms5)
	}
	k := rt.IntRange("perm", 0, nperm-1)
	perm := c04perm(A, k)
	crit := Criteria{{Id: "c", Type: Gain}}
	alts := make([]AlternativeWithCriteria, A)
	for i := 0; i < A; i++ {
		alts[i] = AlternativeWithCriteria{Id: c04ids[2][i], Criteria: Weights{"c": rt.Float("v" + c04ids[2][i])}}
	}
	alts2 := make([]AlternativeWithCriteria, A)
	for i := 0; i < A; i++ {
		alts2[i] = alts[perm[i]]
		if perm[i] != i {
			rt.Reach("perm-nontrivial")
		}
	}
	f := func(a *AlternativeWithCriteria) *AlternativeResult {
		return ValueAlternativeResult(a, a.CriterionRawValue(&crit[0]))
	}
	r1 := Rank(&DecisionMakingParams{ConsideredAlternatives: alts, Criteria: crit}, f)
	r2 := Rank(&DecisionMakingParams{ConsideredAlternatives: alts2, Criteria: crit}, f)
	rt.Assert("C04.perm.len", len(*r1) == len(*r2))
	for i := range *r1 {
		e1 := (*r1)[i]
		found := false
		for j := range *r2 {
			e2 := (*r2)[j]
			if e2.Alternative.Id != e1.Alternative.Id {
				continue
			}
			found = true
			rt.Assert("C04.perm.value", e1.Value() == e2.Value())
			rt.Assert("C04.perm.links", c04linkSetEqual(e1.BetterThanOrSameAs, e2.BetterThanOrSameAs))
			// position class: same number of strictly better alternatives; positions are fully determined
			rt.Assert("C04.perm.position", i == j)
		}
		rt.Assert("C04.perm.present", found)
	}
}

//verif:bounds C04 HC04_grid_fp: bit-precise (IEEE-754) run of sort.Sort(Less) + positionInRanking on A in 2..3 utilities in [-40,40] that are pairwise equal or at least one grid step (1e-8 minus the rounding slack 7.2e-15 of two reported values below 40) apart - a superset of the values the API reports after its 1e-8 rounding, so that a tolerance-based comparison that merges neighbouring grid values shows while exact comparison holds for every double; three id orders; the relational specification of the statement is asserted on the result
//verif:assume C04 HC04_grid_fp: reported values below 40 in magnitude (k/1e8 with |k| <= 4e9); the rounding step itself is in HC04_ranking_spec (REAL)
//verif:harness HC04_grid_fp mode=FP reach=neighbours,tie ob_timeout_ms=120000 feas_timeout_ms=60000
func HC04_grid_fp() {
	A := rt.IntRange("A", 2, 3)
	ord := rt.IntRange("idorder", 0, 2)
	rs := make(AlternativeResults, A)
	const step = 1e-8 - 7.2e-15
	var vs []float64
	for i := 0; i < A; i++ {
		v := rt.FloatIn("v"+c04ids[0][i], -40, 40)
		for _, u := range vs {
			d := v - u
			rt.Assume(rt.Or(d == 0, rt.Or(d >= step, d <= -step)))
		}
		vs = append(vs, v)
		alt := AlternativeWithCriteria{Id: c04ids[ord][i], Criteria: Weights{}}
		rs[i] = *ValueAlternativeResult(&alt, v)
	}
	if rt.Branch(vs[0] == vs[1]) {
		rt.Reach("tie")
	} else {
		rt.Reach("neighbours")
	}
	sort.Sort(&rs)
	ranking := make(AlternativesRanking, A)
	for i, r := range rs {
		ranking[i] = *r.positionInRanking(&rs)
	}
	c04spec("C04.grid", &ranking, A)
}
