package sym

import (
	"fmt"
	"math"
	"math/rand"
	"sort"
	"strings"

	"gosym/smt"

	"golang.org/x/tools/go/ssa"
)

// Concrete mode: the harness is executed by the same interpreter with every nondet leaf
// bound to a sampled concrete value. The resulting vector is then run through the native
// build and the outcomes are compared (translator validation, DESIGN §3.13).

type concreteCtx struct {
	rng    *rand.Rand
	Values map[string]interface{}
	Failed []string
	Obs    []string
}

type ConcreteOutcome struct {
	Outcome string
	Detail  string
	Values  map[string]interface{}
	Failed  []string
	Reached []string
	Obs     []string
}

func (o ConcreteOutcome) Signature() string {
	if o.Outcome == "skipped" {
		return "outcome=skipped"
	}
	return fmt.Sprintf("outcome=%s failed=%s reached=%s obs=%s", o.Outcome, strings.Join(o.Failed, ","), strings.Join(o.Reached, ","), strings.Join(o.Obs, ";"))
}

var gridVals = []float64{-2, -1, -0.5, 0, 0.25, 0.5, 1, 1, 1.5, 2, 3, 0.1, 0.7}

func hexF(f float64) string { return fmt.Sprintf("0x%016x", math.Float64bits(f)) }

func (cc *concreteCtx) known(name string) (float64, bool) {
	if v, ok := cc.Values[name]; ok {
		if s, isS := v.(string); isS {
			var u uint64
			fmt.Sscanf(s, "0x%x", &u)
			return math.Float64frombits(u), true
		}
	}
	return 0, false
}

func (cc *concreteCtx) float(name string) float64 {
	if f, ok := cc.known(name); ok {
		return f
	}
	var f float64
	if cc.rng.Intn(5) == 0 {
		f = math.Round((cc.rng.Float64()*8-4)*1000) / 1000
	} else {
		f = gridVals[cc.rng.Intn(len(gridVals))]
	}
	cc.Values[name] = hexF(f)
	return f
}

func (cc *concreteCtx) floatIn(name string, lo, hi float64) float64 {
	if f, ok := cc.known(name); ok {
		return f
	}
	var f float64
	switch cc.rng.Intn(6) {
	case 0:
		f = lo
	case 1:
		f = hi
	case 2:
		f = (lo + hi) / 2
	default:
		f = lo + (hi-lo)*float64(cc.rng.Intn(9))/8
	}
	if f < lo {
		f = lo
	}
	if f > hi {
		f = hi
	}
	cc.Values[name] = hexF(f)
	return f
}

func (cc *concreteCtx) draw(name string) float64 {
	f := float64(cc.rng.Intn(8)) / 8
	if cc.rng.Intn(3) == 0 {
		f = cc.rng.Float64()
	}
	cc.Values[name] = hexF(f)
	return f
}

func RunConcrete(prog *ssa.Program, fn *ssa.Function, scope, tier string, seed int64) (oc ConcreteOutcome) {
	in := NewInterp(prog, scope)
	ps := NewPathState(nil, nil)
	ctx := smt.NewCtx(smt.REAL)
	in.ResetPath(ctx, nil, ps)
	in.tier = tier
	cc := &concreteCtx{rng: rand.New(rand.NewSource(seed)), Values: map[string]interface{}{}}
	in.conc = cc
	oc.Outcome = "returned"
	func() {
		defer func() {
			if r := recover(); r != nil {
				switch e := r.(type) {
				case *GoPanic:
					oc.Outcome = "panicked"
					oc.Detail = e.Error()
				case Infeasible:
					oc.Outcome = "skipped"
					oc.Detail = e.Why
				case Unsupported:
					oc.Outcome = "unsupported"
					oc.Detail = e.What
				case BudgetExceeded:
					oc.Outcome = "budget"
					oc.Detail = e.Error()
				default:
					oc.Outcome = "engine-error"
					oc.Detail = fmt.Sprint(r)
				}
			}
		}()
		if fn.Pkg != nil {
			in.InitPackage(fn.Pkg)
		}
		in.epoch = 1
		in.Call(fn, nil, nil)
	}()
	oc.Values = cc.Values
	oc.Failed = append([]string{}, cc.Failed...)
	sort.Strings(oc.Failed)
	for l := range ps.Reached {
		oc.Reached = append(oc.Reached, l)
	}
	sort.Strings(oc.Reached)
	oc.Obs = cc.Obs
	return oc
}

// verifrtConcrete implements the harness API in concrete mode.
func (in *Interp) verifrtConcrete(name string, args []Value) (Value, bool) {
	cc := in.conc
	switch name {
	case "Float":
		return cc.float(args[0].(string)), true
	case "FloatIn":
		lo, hi := args[1].(float64), args[2].(float64)
		if lo > hi {
			panic(Infeasible{"empty range"})
		}
		return cc.floatIn(args[0].(string), lo, hi), true
	case "SymBool", "Bool":
		if v, ok := cc.Values[args[0].(string)]; ok {
			return v.(bool), true
		}
		b := cc.rng.Intn(2) == 1
		cc.Values[args[0].(string)] = b
		return b, true
	case "IntRange":
		lo, hi := args[1].(int64), args[2].(int64)
		if hi < lo {
			panic(Infeasible{"empty int range"})
		}
		if v, ok := cc.Values[args[0].(string)]; ok {
			return v.(int64), true
		}
		k := lo + int64(cc.rng.Intn(int(hi-lo+1)))
		cc.Values[args[0].(string)] = k
		return k, true
	case "OneOf":
		ch := in.variadic(args[1])
		if v, ok := cc.Values[args[0].(string)]; ok {
			return v.(string), true
		}
		k := cc.rng.Intn(len(ch))
		cc.Values[args[0].(string)] = ch[k].(string)
		return ch[k], true
	case "Assume":
		if !args[0].(bool) {
			panic(Infeasible{"assumption false"})
		}
		return nil, true
	case "Assert":
		if !args[1].(bool) {
			cc.Failed = append(cc.Failed, args[0].(string))
		}
		return nil, true
	case "KnownFinding":
		if args[1].(bool) {
			in.P.Reached["KF:"+args[0].(string)] = true
		}
		return nil, true
	case "Symbolic":
		return false, true
	case "SymbolicSeed":
		if in.symSeeds == nil {
			in.symSeeds = map[int64]bool{}
		}
		in.symSeeds[args[0].(int64)] = true
		return nil, true
	case "Generators":
		seed := args[0].(int64)
		k := 0
		var real *rand.Rand
		return &Native{Name: "generator", Fn: func(in *Interp, _ []Value) Value {
			if in.drawMode < 0 {
				if real == nil {
					real = rand.New(rand.NewSource(seed))
				}
				return real.Float64()
			}
			if in.drawMode > 0 && !in.symSeeds[seed] {
				k++
				return ConcreteDraw(in.drawMode, seed, k-1)
			}
			n := fmt.Sprintf("draw[%d][%d]", seed, k)
			k++
			if v, ok := cc.Values[n]; ok {
				var u uint64
				fmt.Sscanf(v.(string), "0x%x", &u)
				return math.Float64frombits(u)
			}
			return cc.draw(n)
		}}, true
	case "SharedWrites", "OwnedWrites":
		return int64(0), true
	case "Observe":
		switch v := args[1].(type) {
		case float64:
			if v == 0 {
				v = 0
			}
			cc.Obs = append(cc.Obs, fmt.Sprintf("%s=%016x", args[0].(string), math.Float64bits(v)))
		default:
			cc.Obs = append(cc.Obs, fmt.Sprintf("%s=?", args[0].(string)))
		}
		return nil, true
	case "ObserveS":
		cc.Obs = append(cc.Obs, fmt.Sprintf("%s=%s", args[0].(string), args[1].(string)))
		return nil, true
	}
	return nil, false
}
