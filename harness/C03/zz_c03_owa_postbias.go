//go:build verif

//verif:dir logic/preference-func/owa
package owa

import (
	"math"

	"github.com/Azbesciak/RealDecisionMaker/lib/model"
	vh "github.com/Azbesciak/RealDecisionMaker/lib/zz_vh"
	rt "github.com/Azbesciak/RealDecisionMaker/lib/zz_verifrt"
)

//verif:bounds C03 HC03_owa_after_removal: OWA evaluated on the parameters its bias listener produces when criteria are removed (the post-bias case of the statement): K<=3 criteria (both tiers) of which any non-empty proper subset, in any order, is kept; the value must be the ordered weighted average of the kept weights and the kept values

//verif:harness HC03_owa_after_removal mode=REAL reach=kept-weights-not-ascending
func HC03_owa_after_removal() {
	K := rt.IntRange("K", 2, 3) // K=4 leaves products of four symbolic weights and values undecided (tried: 65 unknown obligations in 50 min)
	crit := vh.Criteria(K, "")
	known := vh.Alternatives("", vh.AltIds[:2], crit)
	w := map[string]interface{}{}
	for _, c := range crit {
		w[c.Id] = rt.FloatIn("w."+c.Id, -4, 4)
	}
	dm := &model.DecisionMaker{PreferenceFunction: "owa", KnownAlternatives: known, ChoseToMake: []string{"b", "a"}, Criteria: crit,
		MethodParameters: map[string]interface{}{"weights": w}}
	f := &OWAPreferenceFunc{}
	params := f.ParseParams(dm)
	// the kept criteria: a rotation of the list with the first `drop` entries removed (order as a bias may deliver it)
	rot := rt.IntRange("rotation", 0, K-1)
	drop := rt.IntRange("dropped", 1, K-1)
	var kept model.Criteria
	for i := drop; i < K; i++ {
		kept = append(kept, crit[(i+rot)%K])
	}
	after := (&OwaBiasListener{}).OnCriteriaRemoved(&kept, params)
	dmp := vh.Params(known, dm.ChoseToMake, kept, after)
	dmp.ConsideredAlternatives = *model.PreserveCriteriaForAlternatives(&dmp.ConsideredAlternatives, &kept)
	r := f.Evaluate(dmp)
	vh.WellFormed("C03.owa.post.wellformed", r, dm.ChoseToMake)
	var ws []float64
	for _, c := range kept {
		ws = append(ws, w[c.Id].(float64))
	}
	if len(ws) >= 2 && rt.Branch(ws[0] > ws[1]) {
		rt.Reach("kept-weights-not-ascending")
	}
	sw := c03sortAsc(ws)
	for i := range *r {
		a := vh.FindAlt(known, (*r)[i].Alternative.Id)
		var vs []float64
		for _, c := range kept {
			vs = append(vs, a.Criteria[c.Id])
		}
		sv := c03sortAsc(vs)
		ref := 0.0
		for k := range sv {
			ref += sw[k] * sv[k]
		}
		got := (*r)[i].Value()
		rt.Assert("C03.owa.post-bias-value-is-ordered-weighted-average", got == math.Round(ref*1e8)/1e8)
	}
}
