//go:build verif

//verif:dir zz_pipeline
package zz_pipeline

import (
	"github.com/Azbesciak/RealDecisionMaker/lib/model"
	rt "github.com/Azbesciak/RealDecisionMaker/lib/zz_verifrt"
)

// StdRequest builds the request used by the statelessness / repeatability harnesses: one of the
// seven methods, optionally one bias variant, heuristics optionally with a current choice taken
// from choseToMake, considered = all or all-but-one.
type StdChoice struct {
	Method  string
	Variant string // "" = no bias
	CC      string // "none", "considered", "not-considered"
	AllConsidered bool
	Values  int
	K       int
	A       int // 0 = 3 known alternatives
	Rich    bool // optional method parameters present (ELECTRE: a custom distillation function)
}

func ChooseStd(variants []string) StdChoice {
	c := StdChoice{Method: rt.OneOf("method", Methods...)}
	c.Variant = rt.OneOf("bias", append([]string{"none"}, variants...)...)
	if c.Variant == "none" {
		c.Variant = ""
	}
	c.AllConsidered = !rt.Bool("one-not-considered")
	c.CC = "none"
	if c.Method == "majorityHeuristic" || c.Method == "satisfactionHeuristic" {
		c.CC = rt.OneOf("currentChoice", "none", "considered", "not-considered")
		if c.CC == "not-considered" {
			rt.Assume(!c.AllConsidered)
		}
	}
	c.Values = rt.IntRange("values", 1, 2)
	if c.Method == "electreIII" {
		c.Rich = rt.Bool("custom-distillation")
	}
	return c
}

func (c StdChoice) Build(px string) *model.DecisionMaker { return c.BuildOpt(px, false) }

// BuildK: as Build with K criteria.
func (c StdChoice) BuildK(px string, k int) *model.DecisionMaker {
	c.K = k
	return c.BuildOpt(px, false)
}

func (c StdChoice) BuildOpt(px string, concrete bool) *model.DecisionMaker {
	o := ReqOpts{Method: c.Method, A: 3, K: 2, Considered: 3, Levels: 1, ElectreThresholds: "qp", Values: c.Values, Prefix: px}
	o.ConcreteParams = concrete || c.Method == "electreIII" || c.Method == "choquetIntegral" || c.Method == "owa"
	if c.K > 0 {
		o.K = c.K
	}
	if c.A > 0 {
		o.A = c.A
	}
	if c.Method == "electreIII" && (c.Variant == "fatigue" || c.Variant == "criteriaConcealment") {
		o.A = 2
	}
	o.Considered = o.A
	if !c.AllConsidered {
		o.Considered = o.A - 1
	}
	switch c.CC {
	case "considered":
		// listed first in choseToMake (removing it shifts everything behind it)
		o.CurrentChoice = []string{"a", "b", "c"}[o.Considered-1]
	case "not-considered":
		o.CurrentChoice = []string{"a", "b", "c"}[o.A-1]
	}
	dm := Request(o)
	if c.Rich && c.Method == "electreIII" {
		dm.MethodParameters["electreDistillation"] = map[string]interface{}{"a": -0.25, "b": 0.5}
	}
	if c.Variant != "" {
		dm.Biases = []interface{}{Bias(c.Variant, DefaultPropsOpt(c.Variant, dm, px, concrete))}
	}
	return dm
}

func findAlt(d *model.DecisionMakingParams, id string) *model.AlternativeWithCriteria {
	for i := range d.ConsideredAlternatives {
		if d.ConsideredAlternatives[i].Id == id {
			return &d.ConsideredAlternatives[i]
		}
	}
	for i := range d.NotConsideredAlternatives {
		if d.NotConsideredAlternatives[i].Id == id {
			return &d.NotConsideredAlternatives[i]
		}
	}
	return nil
}


func c07known(method string, variants []string) {
	owaAdd := false
	for _, v := range variants {
		if method == "owa" && AddsCriterion(v) {
			owaAdd = true
		}
	}
	rt.KnownFinding("KF_C07_owa_add_criterion_type_mismatch", owaAdd)
}

