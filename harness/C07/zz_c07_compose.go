//go:build verif

//verif:dir zz_pipeline
package zz_pipeline

import (
	"github.com/Azbesciak/RealDecisionMaker/lib/model"
	vh "github.com/Azbesciak/RealDecisionMaker/lib/zz_vh"
	rt "github.com/Azbesciak/RealDecisionMaker/lib/zz_verifrt"
)

//verif:bounds C07 HC07_compose_L1: every method x every single bias variant (the six biases with options that make them fire, plus anchoring with the new-criterion applier), A=3 known alternatives (A=2 for ELECTRE with fatigue/concealment), considered = all or all-but-one, K=2 criteria, one explicit aspiration level for the threshold heuristics; criterion values from two concrete families (distinct values / ties + degenerate range + negatives); weights, thresholds, ratios and all seeded draws symbolic (ELECTRE, Choquet, OWA parameters concrete: their arithmetic is C03/C05/C06)
//verif:outside C07: bias sequences longer than the bounds (the quantifier's length 4 included); option combinations not enumerated by the harness

func idsOf(alts []model.AlternativeWithCriteria) []string { return AllIds(alts) }

func sameIdList(a, b []string) bool {
	if len(a) != len(b) {
		return false
	}
	for i := range a {
		if a[i] != b[i] {
			return false
		}
	}
	return true
}

// coherent: every alternative has a value for exactly the current criteria
func coherent(tag string, d *model.DecisionMakingParams) {
	crit := *d.Criteria.Names()
	for _, id := range crit {
		rt.Assert(tag+".criteria-ids-unique", vh.Count(crit, id) == 1)
	}
	for _, group := range [][]model.AlternativeWithCriteria{d.ConsideredAlternatives, d.NotConsideredAlternatives} {
		for _, a := range group {
			rt.Assert(tag+".no-extra-values", len(a.Criteria) == len(crit))
			for _, c := range crit {
				_, ok := a.Criteria[c]
				rt.Assert(tag+".value-for-every-criterion", ok)
			}
		}
	}
}

// rewrites: which existing values a bias variant may deliberately change
func rewritesAllValues(variant string) bool { return variant == "fatigue" || variant == "anchoring" }

func checkSteps(tag string, dm *model.DecisionMaker, out *Outcome, variants []string) {
	var considered, notConsidered []string
	for i, s := range out.Rec.Steps {
		if s.Panicked {
			continue
		}
		if i == 0 {
			considered, notConsidered = idsOf(s.Before.ConsideredAlternatives), idsOf(s.Before.NotConsideredAlternatives)
		}
		coherent(tag+".after-"+s.Name, s.After)
		rt.Assert(tag+".considered-split-unchanged", sameIdList(idsOf(s.After.ConsideredAlternatives), considered))
		rt.Assert(tag+".not-considered-split-unchanged", sameIdList(idsOf(s.After.NotConsideredAlternatives), notConsidered))
		if i > 0 && !out.Rec.Steps[i-1].Panicked {
			rt.Assert(tag+".state-is-threaded", s.Before == out.Rec.Steps[i-1].After)
		}
		// criteria appear / disappear only as reported
		before, after := *s.Before.Criteria.Names(), *s.After.Criteria.Names()
		var added, removed []string
		for _, c := range after {
			if !vh.Contains(before, c) {
				added = append(added, c)
			}
		}
		for _, c := range before {
			if !vh.Contains(after, c) {
				removed = append(removed, c)
			}
		}
		variant := ""
		if i < len(variants) {
			variant = variants[i]
		}
		switch {
		case variant == "criteriaOmission":
			rt.Assert(tag+".omission-adds-nothing", len(added) == 0)
		case variant == "criteriaMixing" && len(before) < 2:
			// mixing does nothing when fewer than two criteria exist
			rt.Assert(tag+".criteria-unchanged", len(added) == 0 && len(removed) == 0)
		case AddsCriterion(variant):
			rt.Assert(tag+".exactly-one-criterion-added", len(added) == 1 && len(removed) == 0)
		default:
			rt.Assert(tag+".criteria-unchanged", len(added) == 0 && len(removed) == 0)
		}
		// earlier changes remain in force: values this bias does not deliberately rewrite are the values it received
		if !rewritesAllValues(variant) {
			var reversed []string
			if variant == "preferenceReversal" {
				for _, a := range after {
					ba, aa := findAlt(s.Before, considered[0]), findAlt(s.After, considered[0])
					if ba != nil && aa != nil {
						_ = a
					}
				}
			}
			for _, id := range append(append([]string{}, considered...), notConsidered...) {
				ba, aa := findAlt(s.Before, id), findAlt(s.After, id)
				if ba == nil || aa == nil {
					continue
				}
				for _, c := range before {
					if !vh.Contains(after, c) || vh.Contains(reversed, c) {
						continue
					}
					bv, ok1 := ba.Criteria[c]
					av, ok2 := aa.Criteria[c]
					if ok1 && ok2 && variant != "preferenceReversal" {
						rt.Assert(tag+".earlier-values-remain-in-force", bv == av)
					}
				}
			}
		}
	}
	if out.Rec.Evaluated != nil && len(out.Rec.Steps) > 0 {
		last := out.Rec.Steps[len(out.Rec.Steps)-1]
		if !last.Panicked {
			rt.Assert(tag+".method-evaluates-the-last-state", out.Rec.Evaluated == last.After)
		}
	}
}

func c07opts(method string, variants []string) ReqOpts {
	o := ReqOpts{Method: method, A: 3, K: 2, Considered: 3, Levels: 1, ElectreThresholds: "qp", Values: rt.IntRange("values", 1, 2)}
	// ELECTRE, Choquet and OWA arithmetic is the subject of C03/C05/C06; here their parameters are concrete
	o.ConcreteParams = method == "electreIII" || method == "choquetIntegral" || method == "owa"
	for _, v := range variants {
		if method == "electreIII" && (v == "fatigue" || v == "criteriaConcealment") {
			// keeps the distillation of symbolic credibilities within reach
			o.A = 2
		}
	}
	o.Considered = o.A
	if rt.Bool("one-not-considered") {
		o.Considered = o.A - 1
	}
	return o
}

//verif:harness HC07_compose_L1 mode=REAL reach=fired,evaluate-returned,criterion-added
func HC07_compose_L1() {
	method := rt.OneOf("method", Methods...)
	bias := rt.OneOf("bias", BiasVariants...)
	o := c07opts(method, []string{bias})
	dm := Request(o)
	dm.Biases = []interface{}{Bias(bias, DefaultProps(bias, dm, ""))}
	c07known(method, []string{bias})
	out := Decide(dm)
	rt.Assert("C07.answered-with-a-ranking", !out.Panicked)
	if out.Panicked {
		return
	}
	if len(out.Rec.Steps) == 1 && !out.Rec.Steps[0].Panicked {
		rt.Reach("fired")
		if len(out.Rec.Steps[0].After.Criteria) > len(dm.Criteria) {
			rt.Reach("criterion-added")
		}
	}
	if out.Rec.EvaluateReturned {
		rt.Reach("evaluate-returned")
	}
	checkSteps("C07", dm, out, []string{bias})
	vh.WellFormed("C07.result", &out.Choice.Result, dm.ChoseToMake)
}

//verif:bounds C07 HC07_compose_L2: every method x every ordered pair of bias variants (49 pairs, with repetition) with the same request shapes as L1; thorough tier additionally HC07_compose_L3 with three biases drawn from a reduced variant set
//verif:harness HC07_compose_L2 mode=REAL reach=both-fired,evaluate-returned budget_quick=12m
func HC07_compose_L2() {
	method := rt.OneOf("method", Methods...)
	b1 := rt.OneOf("bias1", BiasVariants...)
	b2 := rt.OneOf("bias2", BiasVariants...)
	vs := []string{b1, b2}
	o := c07opts(method, vs)
	heavy := heavyPair(b1, b2)
	if heavy {
		// products of seeded draws (blur after blur, generated weights times generated values, normalised
		// importance of generated criteria) are out of the solver's reach: for these pairs the draws follow
		// a fixed pattern and the numeric parameters are fixed numbers (shape-level check only)
		rt.SetDrawMode(rt.IntRange("draw-pattern", 1, 2))
		o.ConcreteParams = true
	}
	dm := Request(o)
	dm.Biases = []interface{}{Bias(b1, DefaultPropsOpt(b1, dm, "b1.", heavy)), Bias(b2, DefaultPropsOpt(b2, dm, "b2.", heavy))}
	c07known(method, vs)
	c07knownL2(method, vs)
	out := Decide(dm)
	rt.Assert("C07.answered-with-a-ranking", !out.Panicked)
	if out.Panicked {
		return
	}
	if len(out.Rec.Steps) == 2 && !out.Rec.Steps[1].Panicked {
		rt.Reach("both-fired")
	}
	if out.Rec.EvaluateReturned {
		rt.Reach("evaluate-returned")
	}
	checkSteps("C07", dm, out, vs)
	vh.WellFormed("C07.result", &out.Choice.Result, dm.ChoseToMake)
}

func c07knownL2(method string, vs []string) {}

// heavyPair: pairs in which a bias consumes numbers produced from seeded draws by the other one
// (generated values rescaled, blurred or normalised again). Only pairs of draw-free biases keep
// symbolic draws and parameters at length 2; every single bias is fully symbolic in HC07_compose_L1.
func heavyPair(b1, b2 string) bool {
	drawFree := func(x string) bool { return x == "criteriaOmission" || x == "preferenceReversal" || x == "anchoring" }
	return !(drawFree(b1) && drawFree(b2))
}

//verif:bounds C07 HC07_compose_L3 (thorough tier only): every method x every ordered triple (with repetition) of six bias variants (omission, reversal, fatigue, concealment, mixing, anchoring/newCriterion), fixed draw patterns and fixed numeric parameters (shape-level), same request shapes
//verif:harness HC07_compose_L3 mode=REAL tier=thorough reach=all-fired,evaluate-returned
func HC07_compose_L3() {
	method := rt.OneOf("method", Methods...)
	six := []string{"criteriaOmission", "preferenceReversal", "fatigue", "criteriaConcealment", "criteriaMixing", "anchoring/newCriterion"}
	vs := []string{rt.OneOf("bias1", six...), rt.OneOf("bias2", six...), rt.OneOf("bias3", six...)}
	o := c07opts(method, vs)
	o.K = 3
	rt.SetDrawMode(rt.IntRange("draw-pattern", 1, 2))
	o.ConcreteParams = true
	dm := Request(o)
	for i, v := range vs {
		dm.Biases = append(dm.Biases, Bias(v, DefaultPropsOpt(v, dm, []string{"b1.", "b2.", "b3."}[i], true)))
	}
	c07known(method, vs)
	out := Decide(dm)
	rt.Assert("C07.answered-with-a-ranking", !out.Panicked)
	if out.Panicked {
		return
	}
	if len(out.Rec.Steps) == 3 && !out.Rec.Steps[2].Panicked {
		rt.Reach("all-fired")
	}
	if out.Rec.EvaluateReturned {
		rt.Reach("evaluate-returned")
	}
	checkSteps("C07", dm, out, vs)
	vh.WellFormed("C07.result", &out.Choice.Result, dm.ChoseToMake)
}

//verif:bounds C07 HC07_compose_ids: sequences of length 3 and 4 (the quantifier's maximum) over {concealment, mixing, anchoring/newCriterion, omission of one criterion in seeded-random order}: the shuffle draws of every omission are symbolic (every criterion that can be omitted is a path), all other draws follow a fixed pattern and numeric parameters are fixed numbers; K=2 criteria, A=3; methods weightedSum and majorityHeuristic (quick) / all seven (thorough); sequences that would omit the last criterion are outside the domain
//verif:harness HC07_compose_ids mode=REAL reach=four-fired,added-after-omission,evaluate-returned
func HC07_compose_ids() {
	method := "weightedSum"
	if rt.Thorough() {
		method = rt.OneOf("method", Methods...)
	} else {
		method = rt.OneOf("method", "weightedSum", "majorityHeuristic")
	}
	alphabet := []string{"criteriaConcealment", "criteriaMixing", "anchoring/newCriterion", "criteriaOmission"}
	L := rt.IntRange("length", 3, 4)
	var vs []string
	cnt := 2
	addedAfterOmission, omitted := false, false
	for i := 0; i < L; i++ {
		v := rt.OneOf([]string{"bias1", "bias2", "bias3", "bias4"}[i], alphabet...)
		switch {
		case v == "criteriaOmission":
			cnt--
			omitted = true
		case v == "criteriaMixing" && cnt < 2:
		default:
			cnt++
			addedAfterOmission = addedAfterOmission || omitted
		}
		if cnt < 1 {
			return // a bias that removes every criterion is outside the domain
		}
		vs = append(vs, v)
	}
	o := ReqOpts{Method: method, A: 3, K: 2, Considered: 3, Levels: 1, ElectreThresholds: "qp", Values: 1, ConcreteParams: true}
	rt.SetDrawMode(rt.IntRange("draw-pattern", 1, rt.Pick(1, 2)))
	dm := Request(o)
	for i, v := range vs {
		if v == "criteriaOmission" {
			seed := int64(31 + i)
			rt.SymbolicSeed(seed)
			dm.Biases = append(dm.Biases, Bias(v, map[string]interface{}{"ratio": 0.125, "min": float64(1), "max": float64(1), "ordering": "random", "randomSeed": float64(seed)}))
			continue
		}
		dm.Biases = append(dm.Biases, Bias(v, DefaultPropsOpt(v, dm, []string{"b1.", "b2.", "b3.", "b4."}[i], true)))
	}
	c07known(method, vs)
	out := Decide(dm)
	rt.Assert("C07.answered-with-a-ranking", !out.Panicked)
	if out.Panicked {
		return
	}
	if len(out.Rec.Steps) == 4 && !out.Rec.Steps[3].Panicked {
		rt.Reach("four-fired")
	}
	if addedAfterOmission {
		rt.Reach("added-after-omission")
	}
	if out.Rec.EvaluateReturned {
		rt.Reach("evaluate-returned")
	}
	checkSteps("C07", dm, out, vs)
	vh.WellFormed("C07.result", &out.Choice.Result, dm.ChoseToMake)
}

//verif:bounds C07 HC07_compose_L4 (thorough tier only): every method x every sequence of four bias variants (with repetition) drawn from the six of L3 - the quantifier's maximum length - with one fixed draw pattern and fixed numeric parameters (shape-level), K=3, considered = all / all-but-one
//verif:harness HC07_compose_L4 mode=REAL tier=thorough reach=all-fired,evaluate-returned
func HC07_compose_L4() {
	method := rt.OneOf("method", Methods...)
	six := []string{"criteriaOmission", "preferenceReversal", "fatigue", "criteriaConcealment", "criteriaMixing", "anchoring/newCriterion"}
	vs := []string{rt.OneOf("bias1", six...), rt.OneOf("bias2", six...), rt.OneOf("bias3", six...), rt.OneOf("bias4", six...)}
	o := c07opts(method, vs)
	o.K = 3
	o.Values = 1
	rt.SetDrawMode(1)
	o.ConcreteParams = true
	dm := Request(o)
	for i, v := range vs {
		dm.Biases = append(dm.Biases, Bias(v, DefaultPropsOpt(v, dm, []string{"b1.", "b2.", "b3.", "b4."}[i], true)))
	}
	c07known(method, vs)
	out := Decide(dm)
	rt.Assert("C07.answered-with-a-ranking", !out.Panicked)
	if out.Panicked {
		return
	}
	if len(out.Rec.Steps) == 4 && !out.Rec.Steps[3].Panicked {
		rt.Reach("all-fired")
	}
	if out.Rec.EvaluateReturned {
		rt.Reach("evaluate-returned")
	}
	checkSteps("C07", dm, out, vs)
	vh.WellFormed("C07.result", &out.Choice.Result, dm.ChoseToMake)
}
