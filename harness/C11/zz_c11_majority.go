//go:build verif

//verif:dir logic/limited-rationality/majority
package majority

import (
	"github.com/Azbesciak/RealDecisionMaker/lib/model"
	"github.com/Azbesciak/RealDecisionMaker/lib/utils"
	vh "github.com/Azbesciak/RealDecisionMaker/lib/zz_vh"
	rt "github.com/Azbesciak/RealDecisionMaker/lib/zz_verifrt"
)

//verif:bounds C11 HC11_tournament: known alternatives A<=4 (quick) / A<=5 (thorough); considered = all (all-but-last when currentChoice is known-but-not-considered; thorough: both); K=2 criteria (quick) / K=1..3 (thorough), first criterion gain or cost, others alternate cost/gain, all four draw policies, currentChoice absent / first considered / last considered / known-not-considered, fixed search order; all values and weights free reals (weights in [0,4])
//verif:bounds C11 HC11_shuffle: seeded-random search order (every draw symbolic), A<=3 (quick) / A<=4 (thorough), K=1..2; only the order-independent clauses are asserted
//verif:outside C11: A and K beyond the bounds; the value reported for the undefeated alternative (not part of the statement); rounding of score sums (REAL mode)
//verif:assume C11: scores are sums over the reals; ties are |s1-s2| <= 1e-6 and |v1-v2| <= 1e-6 exactly as in the statement

var c11policies = []string{"allow", "current", "newer", "random"}

func c11majority() *Majority {
	return NewMajority(rt.Generators, []DrawResolver{&DrawAllowedResolver{}, &CurrentIsWinnerDrawResolver{}, &NewerIsWinnerResolver{}, &RandomWinnerResolver{}})
}

// reference scoring: total weight of the criteria on which the first is strictly better (eps 1e-6)
func c11score(crit model.Criteria, w model.Weights, x, y *model.AlternativeWithCriteria) float64 {
	s := 0.0
	for i := range crit {
		c := crit[i]
		vx, vy := x.Criteria[c.Id], y.Criteria[c.Id]
		if c.Type == model.Cost {
			vx, vy = -vx, -vy
		}
		if vx-vy > 1e-6 {
			s += w[c.Id]
		}
	}
	return s
}

type c11info struct {
	id, opp      string
	own, oppScore float64
	group        int
}

type c11setup struct {
	known  []model.AlternativeWithCriteria
	chose  []string
	crit   model.Criteria
	params MajorityHeuristicParams
	order  []string // expected search order (fixed order only)
	expectedIds []string
}

func c11build(maxA, maxK int, shuffle bool) *c11setup {
	A := rt.IntRange("A", 2, maxA)
	K := maxK
	if rt.Thorough() {
		K = rt.IntRange("K", 1, maxK)
	}
	// the first criterion is gain or cost (a harness choice); the others alternate cost/gain
	crit := vh.Criteria(1, "")
	for i := 1; i < K; i++ {
		t := model.Cost
		if i%2 == 0 {
			t = model.Gain
		}
		crit = append(crit, model.Criterion{Id: vh.CritIds[i], Type: t})
	}
	known := vh.Alternatives("", vh.AltIds[:A], crit)
	cc := rt.OneOf("currentChoice", "none", "first-considered", "last-considered", "not-considered")
	considered := A
	if cc == "not-considered" || (rt.Thorough() && rt.Bool("leave-last-unconsidered")) {
		considered = A - 1
	}
	// listed order differs from known order: considered ids are taken back to front
	chose := []string{}
	for i := considered - 1; i >= 0; i-- {
		chose = append(chose, vh.AltIds[i])
	}
	cur := ""
	switch cc {
	case "first-considered":
		cur = chose[0]
	case "last-considered":
		cur = chose[len(chose)-1]
	case "not-considered":
		rt.Assume(considered < A)
		cur = vh.AltIds[A-1]
	}
	s := &c11setup{known: known, chose: chose, crit: crit}
	s.params = MajorityHeuristicParams{Weights: vh.Weights("w.", crit, 0, 4), CurrentChoice: cur, RandomSeed: 7,
		RandomAlternativesOrdering: shuffle, DrawResolution: rt.OneOf("policy", c11policies...)}
	if cur != "" {
		s.order = append(s.order, cur)
	}
	for _, id := range chose {
		if id != cur {
			s.order = append(s.order, id)
		}
	}
	s.expectedIds = append([]string{}, chose...)
	if cur != "" && !vh.Contains(chose, cur) {
		s.expectedIds = append(s.expectedIds, cur)
	}
	return s
}

func c11alt(known []model.AlternativeWithCriteria, id string) *model.AlternativeWithCriteria {
	for i := range known {
		if known[i].Id == id {
			return &known[i]
		}
	}
	panic("unknown alternative " + id)
}

// c11entryClauses asserts the per-entry clauses of the statement that do not depend on the search order.
func c11entryClauses(tag string, s *c11setup, r *model.AlternativesRanking) {
	undefeated := 0
	for i := range *r {
		e := (*r)[i]
		ev := e.Evaluation.(MajorityEvaluation)
		if ev.ComparedWith == "" {
			undefeated++
			rt.Assert(tag+".undefeated-first", i == 0 || vh.Contains((*r)[0].BetterThanOrSameAs, e.Alternative.Id) && vh.Contains(e.BetterThanOrSameAs, (*r)[0].Alternative.Id))
			continue
		}
		oi := vh.IndexOf(r, ev.ComparedWith)
		rt.Assert(tag+".opponent-in-result", oi >= 0)
		if oi < 0 {
			continue
		}
		me, opp := c11alt(s.known, e.Alternative.Id), c11alt(s.known, ev.ComparedWith)
		rt.Assert(tag+".own-score", ev.Value == c11score(s.crit, s.params.Weights, me, opp))
		rt.Assert(tag+".opponent-score", ev.ComparedAlternativeValue == c11score(s.crit, s.params.Weights, opp, me))
		rt.Assert(tag+".not-higher-than-opponent", ev.Value <= ev.ComparedAlternativeValue+1e-6)
		sameGroup := vh.Contains(e.BetterThanOrSameAs, ev.ComparedWith) && vh.Contains((*r)[oi].BetterThanOrSameAs, e.Alternative.Id)
		if s.params.DrawResolution == "allow" {
			rt.Assert(tag+".below-or-tied-with-opponent", oi < i || sameGroup)
		} else {
			rt.Assert(tag+".below-opponent", oi < i && !sameGroup)
		}
		// the opponent is reachable from... the opponent ranks at least as high: this entry is reachable from it
		rt.Assert(tag+".reachable-from-opponent", vh.Contains(vh.Reachable(r, ev.ComparedWith), e.Alternative.Id))
	}
	rt.Assert(tag+".one-undefeated", undefeated == 1)
}

//verif:harness HC11_tournament mode=REAL reach=draw,win,loss,group3,cc-considered,cc-notconsidered
func HC11_tournament() {
	s := c11build(rt.Pick(4, 5), rt.Pick(2, 3), false)
	dmp := vh.Params(s.known, s.chose, s.crit, s.params)
	r := c11majority().Evaluate(dmp)
	vh.WellFormed("C11.wellformed", r, s.expectedIds)
	c11entryClauses("C11", s, r)

	// reference tournament over plain lists
	gen := rt.Generators(s.params.RandomSeed)
	winner := s.order[0]
	var tied []string
	var groups [][]string
	info := map[string]*c11info{}
	for _, x := range s.order[1:] {
		sw := c11score(s.crit, s.params.Weights, c11alt(s.known, winner), c11alt(s.known, x))
		sx := c11score(s.crit, s.params.Weights, c11alt(s.known, x), c11alt(s.known, winner))
		outcome := "new-loses"
		if utils.FloatsAreEqual(sw, sx, 1e-6) {
			rt.Reach("draw")
			switch s.params.DrawResolution {
			case "allow":
				outcome = "tie"
			case "current":
				outcome = "new-loses"
			case "newer":
				outcome = "new-wins"
			case "random":
				if gen() < 0.5 {
					outcome = "new-loses"
				} else {
					outcome = "new-wins"
				}
			}
		} else if sx < sw {
			rt.Reach("win")
		} else {
			rt.Reach("loss")
			outcome = "new-wins"
		}
		switch outcome {
		case "tie":
			tied = append(tied, x)
			info[x] = &c11info{id: x, opp: winner, own: sx, oppScore: sw}
		case "new-loses":
			groups = append(groups, []string{x})
			info[x] = &c11info{id: x, opp: winner, own: sx, oppScore: sw}
		case "new-wins":
			info[winner] = &c11info{id: winner, opp: x, own: sw, oppScore: sx}
			g := append(append([]string{}, tied...), winner)
			groups = append(groups, g)
			tied = nil
			winner = x
		}
	}
	groups = append(groups, append(append([]string{}, tied...), winner))
	if s.params.CurrentChoice != "" {
		if vh.Contains(s.chose, s.params.CurrentChoice) {
			rt.Reach("cc-considered")
		} else {
			rt.Reach("cc-notconsidered")
		}
	}
	// the ranking is the reverse order of dropping out, group by group
	pos := 0
	for gi := len(groups) - 1; gi >= 0; gi-- {
		g := groups[gi]
		if len(g) >= 3 {
			rt.Reach("group3")
		}
		var got []string
		for k := 0; k < len(g) && pos+k < len(*r); k++ {
			got = append(got, (*r)[pos+k].Alternative.Id)
		}
		rt.Assert("C11.reverse-dropout-order", vh.SameSet(got, g))
		// everything in the same or a lower group - and nothing else - is reachable through the links
		var lowerOrSame []string
		for gj := gi; gj >= 0; gj-- {
			lowerOrSame = append(lowerOrSame, groups[gj]...)
		}
		for _, id := range g {
			var want []string
			for _, x := range lowerOrSame {
				if x != id || len(g) > 1 {
					want = append(want, x)
				}
			}
			rt.Assert("C11.links-closure", vh.SameSet(vh.Reachable(r, id), want))
		}
		pos += len(g)
	}
	for i := range *r {
		e := (*r)[i]
		ev := e.Evaluation.(MajorityEvaluation)
		exp := info[e.Alternative.Id]
		if e.Alternative.Id == winner {
			rt.Assert("C11.winner-undefeated", ev.ComparedWith == "")
			continue
		}
		rt.Assert("C11.has-info", exp != nil)
		if exp == nil {
			continue
		}
		rt.Assert("C11.comparedWith", ev.ComparedWith == exp.opp)
		rt.Assert("C11.value", ev.Value == exp.own)
		rt.Assert("C11.comparedValue", ev.ComparedAlternativeValue == exp.oppScore)
	}
}

//verif:harness HC11_shuffle mode=REAL reach=shuffled
func HC11_shuffle() {
	s := c11build(rt.Pick(3, 4), rt.Pick(1, 2), true)
	dmp := vh.Params(s.known, s.chose, s.crit, s.params)
	r := c11majority().Evaluate(dmp)
	vh.WellFormed("C11.shuffle.wellformed", r, s.expectedIds)
	c11entryClauses("C11.shuffle", s, r)
	if s.params.CurrentChoice != "" {
		// current choice first: it is the first to be compared, so if it is not the winner its opponent ... it is either undefeated or was met by someone
		rt.Reach("shuffled")
	} else {
		rt.Reach("shuffled")
	}
}
