//go:build verif

//verif:dir logic/preference-func/electreIII
package electreIII

import (
	"github.com/Azbesciak/RealDecisionMaker/lib/model"
	vh "github.com/Azbesciak/RealDecisionMaker/lib/zz_vh"
	rt "github.com/Azbesciak/RealDecisionMaker/lib/zz_verifrt"
)

//verif:bounds C05 HC05_credibility: credibility of one ordered pair (electreIIICredibility: evaluatePair, calculateElectreResult, calculateTotalC, calculateCredibility) against the textbook formula: K<=3 criteria (quick tier at K=3: each criterion without thresholds or with q+p+v), gain and cost, every combination of present/absent constant thresholds (none, q, p, q+p, p+v, q+p+v) with symbolic 0 < q < p < v, symbolic k > 0, symbolic values (ties included)
//verif:bounds C05 HC05_distillation: RankAscending / RankDescending on an ARBITRARY symbolic credibility matrix (off-diagonal entries free in [0,1], ties and zeros included) of n<=3 alternatives with the default distillation function against a set-based reference distillation written from the method's definition: equal class numbers, classes consecutive from 1
//verif:bounds C05 HC05_preorder: EvaluateRanking on every pair of index vectors over n<=3 alternatives: b in betterThanOrSameAs(a) iff asc(a)<=asc(b) and desc(a)<=desc(b), b != a
//verif:bounds C05 HC05_end_to_end: ElectreIII (through ParseParams and Evaluate) with A<=3 alternatives and K=1, or A<=2 and K=2, symbolic values, thresholds from the shapes above with concrete numbers: indices equal the reference distillation of the credibility matrix the implementation computed, links as specified
//verif:outside C05: thresholds that depend on the criterion value (non-zero slope: outside the statement's 'constant thresholds'); n and K beyond the bounds; REAL arithmetic

//verif:harness HC05_credibility mode=REAL reach=indifferent,weak-preference,veto-partial,veto-full,equal-values,strict-better ob_timeout_ms=60000
func HC05_credibility() {
	K := rt.IntRange("K", 1, 3)
	crit := vh.Criteria(K, "")
	known := vh.Alternatives("", vh.AltIds[:2], crit)
	thr := map[string]eThr{}
	ec := ElectreCriteria{}
	for _, c := range crit {
		shapes := eShapes
		if K == 3 && !rt.Thorough() {
			// quick tier at K=3: every criterion either without thresholds or with all three (two vetoing criteria
			// next to a concordant one need K=3)
			shapes = []string{"none", "qpv"}
		}
		t, e := eThresholds("", c, rt.OneOf("thresholds."+c.Id, shapes...))
		thr[c.Id] = t
		ec[c.Id] = e
	}
	a, b := &known[0], &known[1]
	res := electreIIICredibility(a, b, &crit, &ec)
	C, sigma := eCredibility(crit, thr, a, b)
	rt.Assert("C05.concordance-index", res.C == C)
	rt.Assert("C05.credibility", res.D == sigma)
	// reachability witnesses on the first criterion
	c0 := crit[0]
	diff := vh.Signed(&c0, b.Criteria[c0.Id]) - vh.Signed(&c0, a.Criteria[c0.Id])
	t0 := thr[c0.Id]
	switch {
	case rt.Branch(diff == 0):
		rt.Reach("equal-values")
	case rt.Branch(diff < 0):
		rt.Reach("strict-better")
	case t0.hasQ && rt.Branch(diff <= t0.q):
		rt.Reach("indifferent")
	case t0.hasP && rt.Branch(diff <= t0.p):
		rt.Reach("weak-preference")
	case t0.hasV && rt.Branch(diff <= t0.v):
		rt.Reach("veto-partial")
	case t0.hasV:
		rt.Reach("veto-full")
	}
}

//verif:harness HC05_distillation mode=REAL reach=inner-distillation,all-zero,several-classes,tie-class
func HC05_distillation() {
	n := rt.IntRange("n", 1, 3) // an arbitrary 4x4 matrix did not finish (thorough tier adds the symbolic distillation function instead)
	sigma := make([][]float64, n)
	rows := make([][]float64, n)
	ids := make(model.Alternatives, n)
	for i := 0; i < n; i++ {
		sigma[i] = make([]float64, n)
		rows[i] = make([]float64, n)
		ids[i] = vh.AltIds[i]
		for j := 0; j < n; j++ {
			if i == j {
				sigma[i][j], rows[i][j] = 1, 1
			} else {
				v := rt.FloatIn("s."+vh.AltIds[i]+vh.AltIds[j], 0, 1)
				sigma[i][j], rows[i][j] = v, v
			}
		}
	}
	fn := DefaultDistillationFunc
	// (a symbolic distillation function was tried for the thorough tier: the harness's own reference distillation then
	// hits its loop bound on some paths and an arbitrary 4x4 matrix does not finish - neither is registered)
	m := &AlternativesMatrix{Alternatives: &ids, Values: NewMatrix(&rows)}
	asc := *RankAscending(m, &fn)
	desc := *RankDescending(m, &fn)
	rasc, rdesc := eIndices(sigma, fn.A, fn.B)
	rt.Assert("C05.distillation-lengths", len(asc) == n && len(desc) == n)
	mxA, mxD := 0, 0
	for i := 0; i < n; i++ {
		rt.Assert("C05.ascending-class-numbers", asc[i] == rasc[i])
		rt.Assert("C05.descending-class-numbers", desc[i] == rdesc[i])
		if asc[i] > mxA {
			mxA = asc[i]
		}
		if desc[i] > mxD {
			mxD = desc[i]
		}
	}
	// classes are consecutive integers from 1
	for k := 1; k <= mxA; k++ {
		found := false
		for i := 0; i < n; i++ {
			found = found || asc[i] == k
		}
		rt.Assert("C05.ascending-classes-consecutive-from-1", found)
	}
	for k := 1; k <= mxD; k++ {
		found := false
		for i := 0; i < n; i++ {
			found = found || desc[i] == k
		}
		rt.Assert("C05.descending-classes-consecutive-from-1", found)
	}
	if mxA >= 2 {
		rt.Reach("several-classes")
	}
	if n >= 2 && mxA < n {
		rt.Reach("tie-class")
	}
	if n >= 2 && mxA == 1 {
		rt.Reach("all-zero")
	}
	if n >= 3 && mxA == 2 {
		rt.Reach("inner-distillation")
	}
}

//verif:harness HC05_preorder mode=REAL reach=incomparable,mutual
func HC05_preorder() {
	n := rt.IntRange("n", 1, 3)
	asc := make([]int, n)
	desc := make([]int, n)
	alts := make([]model.AlternativeWithCriteria, n)
	for i := 0; i < n; i++ {
		asc[i] = rt.IntRange("asc."+vh.AltIds[i], 1, n)
		desc[i] = rt.IntRange("desc."+vh.AltIds[i], 1, n)
		alts[i] = model.AlternativeWithCriteria{Id: vh.AltIds[i]}
	}
	r := EvaluateRanking(&asc, &desc, &alts)
	var expected []string
	for i := range alts {
		expected = append(expected, alts[i].Id)
	}
	vh.WellFormed("C05.preorder.wellformed", r, expected)
	for i := 0; i < n; i++ {
		k := vh.IndexOf(r, alts[i].Id)
		if k < 0 {
			continue
		}
		e := (*r)[k]
		ev := e.Evaluation.(ElectreIIIEvaluation)
		rt.Assert("C05.reports-indices", ev.AscendingIndex == asc[i] && ev.DescendingIndex == desc[i])
		for j := 0; j < n; j++ {
			if i == j {
				continue
			}
			want := asc[i] <= asc[j] && desc[i] <= desc[j]
			rt.Assert("C05.links-are-the-intersection-of-the-preorders", vh.Contains(e.BetterThanOrSameAs, alts[j].Id) == want)
			if !want && !(asc[j] <= asc[i] && desc[j] <= desc[i]) {
				rt.Reach("incomparable")
			}
			if want && asc[j] <= asc[i] && desc[j] <= desc[i] {
				rt.Reach("mutual")
			}
		}
	}
}

//verif:harness HC05_end_to_end mode=REAL reach=ranked,incomparable-or-tied ob_timeout_ms=60000 budget_thorough=45m
func HC05_end_to_end() {
	A := rt.IntRange("A", 1, 3)
	K := rt.IntRange("K", 1, 2)
	shape := rt.OneOf("thresholds", eShapes...)
	rt.Assume(K == 1 || A <= 2) // three alternatives with one criterion, two criteria with two alternatives (A=3 with K=2 did not finish in 15 min for one threshold shape)
	crit := vh.Criteria(K, "")
	known := vh.Alternatives("", vh.AltIds[:A], crit)
	params := map[string]interface{}{}
	for i, c := range crit {
		e := map[string]interface{}{"k": []float64{1, 2}[i]}
		if shape == "q" || shape == "qp" || shape == "qpv" {
			e["q"] = map[string]interface{}{"b": 0.5}
		}
		if shape == "p" || shape == "qp" || shape == "pv" || shape == "qpv" {
			e["p"] = map[string]interface{}{"b": 1.5}
		}
		if shape == "pv" || shape == "qpv" {
			e["v"] = map[string]interface{}{"b": 3.0}
		}
		params[c.Id] = e
	}
	var chose []string
	for i := A - 1; i >= 0; i-- {
		chose = append(chose, vh.AltIds[i])
	}
	dm := &model.DecisionMaker{PreferenceFunction: "electreIII", KnownAlternatives: known, ChoseToMake: chose, Criteria: crit,
		MethodParameters: map[string]interface{}{"electreCriteria": params}}
	f := &ElectreIIIPreferenceFunc{}
	parsed := f.ParseParams(dm).(electreIIIParams)
	dmp := vh.Params(known, chose, crit, parsed)
	r := f.Evaluate(dmp)
	vh.WellFormed("C05.e2e.wellformed", r, chose)
	// the credibility matrix the implementation computes for the considered alternatives, distilled by the reference
	m := evaluateCredibilityMatrix(&dmp.ConsideredAlternatives, &crit, parsed.Criteria)
	n := len(chose)
	sigma := make([][]float64, n)
	for i := 0; i < n; i++ {
		sigma[i] = make([]float64, n)
		for j := 0; j < n; j++ {
			sigma[i][j] = m.Values.At(i, j)
		}
	}
	rasc, rdesc := eIndices(sigma, DefaultDistillationFunc.A, DefaultDistillationFunc.B)
	for i, id := range chose {
		k := vh.IndexOf(r, id)
		if k < 0 {
			continue
		}
		ev := (*r)[k].Evaluation.(ElectreIIIEvaluation)
		rt.Assert("C05.e2e.ascending-index", ev.AscendingIndex == rasc[i])
		rt.Assert("C05.e2e.descending-index", ev.DescendingIndex == rdesc[i])
		for j, jd := range chose {
			if i == j {
				continue
			}
			want := rasc[i] <= rasc[j] && rdesc[i] <= rdesc[j]
			rt.Assert("C05.e2e.links", vh.Contains((*r)[k].BetterThanOrSameAs, jd) == want)
			if !want || (rasc[j] <= rasc[i] && rdesc[j] <= rdesc[i]) {
				rt.Reach("incomparable-or-tied")
			}
		}
	}
	rt.Reach("ranked")
}
