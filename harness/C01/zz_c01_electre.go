//go:build verif

//verif:dir logic/preference-func/electreIII
package electreIII

import (
	"github.com/Azbesciak/RealDecisionMaker/lib/model"
	vh "github.com/Azbesciak/RealDecisionMaker/lib/zz_vh"
	rt "github.com/Azbesciak/RealDecisionMaker/lib/zz_verifrt"
)

//verif:bounds C01 HC01_electre: EvaluateRanking on every pair of ascending/descending index vectors over n<=3 (quick) / n<=4 (thorough) alternatives, and ElectreIII end to end with A<=3 alternatives, K=1, symbolic values and the threshold shapes of C05

//verif:harness HC01_electre mode=REAL reach=from-indices,end-to-end
func HC01_electre() {
	if rt.Bool("end-to-end") {
		A := rt.IntRange("A", 1, 3)
		crit := vh.Criteria(1, "")
		alts := vh.Alternatives("", vh.AltIds[:A], crit)
		ec := c06criteria(crit, rt.OneOf("thresholds", eShapes...), 1)
		r := ElectreIII(alts, crit, &ec, &DefaultDistillationFunc)
		var ids []string
		for _, a := range alts {
			ids = append(ids, a.Id)
		}
		vh.WellFormed("C01.electre", r, ids)
		rt.Reach("end-to-end")
		return
	}
	n := rt.IntRange("n", 1, rt.Pick(3, 4))
	asc, desc := make([]int, n), make([]int, n)
	alts := make([]model.AlternativeWithCriteria, n)
	var ids []string
	for i := 0; i < n; i++ {
		asc[i] = rt.IntRange("asc."+vh.AltIds[i], 1, n)
		desc[i] = rt.IntRange("desc."+vh.AltIds[i], 1, n)
		alts[i] = model.AlternativeWithCriteria{Id: vh.AltIds[i]}
		ids = append(ids, vh.AltIds[i])
	}
	vh.WellFormed("C01.electre.from-indices", EvaluateRanking(&asc, &desc, &alts), ids)
	rt.Reach("from-indices")
}
