//go:build verif

//verif:dir zz_pipeline
package zz_pipeline

import (
	"errors"

	"github.com/Azbesciak/RealDecisionMaker/lib/model"
	"github.com/Azbesciak/RealDecisionMaker/lib/utils"
	rt "github.com/Azbesciak/RealDecisionMaker/lib/zz_verifrt"
)

//verif:bounds C20 HC20_handler: decideHandler / writeError / writeJSON extracted from httpClient/main.go on every run (gin.Context replaced by a recording stand-in whose ShouldBindJSON either fails or delivers the harness request), over the real MakeDecision with the service registries: every method x (no bias | one bias variant) valid request, a binding failure, and each documented constraint violated one at a time with the offending NUMBER symbolic over the whole violating region (weights, k, thresholds, ratios, coefficients, ranges, scalings) or the offending NAME / id concrete; obligation: exactly one response per request, 200 with a ranking or 400 with error and the echoed request, and every violated constraint is answered 400
//verif:bounds C20 HC20_rejects: each of the enumerated constraint violations (offending number symbolic over the violating region) is answered 400 and never with a ranking; a valid request of the same method and bias kind served before and after the rejected one is answered 200 with the same body, and the rejected request performs no store into registry objects (sequence clause: rejected request, then valid request)
//verif:bounds C20 HC20_terminates_electre: ELECTRE III requests (A<=3, K=1, concrete values) with a SYMBOLIC custom distillation function (a, b unconstrained in [-2,2]): no path may exhaust the call-depth / loop / step budget; a budget hit is replayed natively under a timeout and a stack limit
//verif:bounds C20 HC20_series_progress_fp: bit-precise (IEEE-754): for every coefficient the validators ACCEPT (0 < c < 1) and every level reachable in a generated series, one update must change the level - otherwise the heuristic loops forever on that request
//verif:outside C20: malformed JSON, the JSON binding and encoding themselves (encoding/json, gin), the HTTP status on the wire, encoding failures for non-finite results, the text of error messages (so 'the message lists the available names' is not checked), process liveness beyond 'no fatal path within the bounds', and GET /api/preferenceFunctions (reflection-based jsonschema; outside what the symbolic executor models) - these parts of the statement are not decided by this technique

func c20valid(method, variant string) *model.DecisionMaker {
	c := StdChoice{Method: method, Variant: variant, CC: "none", AllConsidered: true, Values: 1}
	return c.BuildOpt("", true)
}

func c20serve(dm *model.DecisionMaker, bindErr error) *FakeContext {
	c := &FakeContext{BindErr: bindErr, Request: dm}
	decideHandler(c)
	return c
}

func c20is400(c *FakeContext) bool {
	if len(c.Calls) != 1 || c.Calls[0].Code != 400 {
		return false
	}
	body, ok := c.Calls[0].Body.(requestError)
	return ok && body.Error != nil && body.Request != nil
}

func c20is200(c *FakeContext) bool {
	if len(c.Calls) != 1 || c.Calls[0].Code != 200 {
		return false
	}
	ch, ok := c.Calls[0].Body.(*model.DecisionMakerChoice)
	return ok && ch != nil
}

//verif:harness HC20_handler mode=REAL reach=ok-200,bind-400,panic-400
func HC20_handler() {
	method := rt.OneOf("method", Methods...)
	variant := rt.OneOf("bias", append([]string{"none"}, BiasVariants...)...)
	if variant == "none" {
		variant = ""
	}
	rt.KnownFinding("KF_C20_owa_add_criterion_type_mismatch", method == "owa" && AddsCriterion(variant))
	rt.SetDrawMode(1)
	dm := c20valid(method, variant)
	if rt.Bool("binding-fails") {
		c := c20serve(dm, errors.New("bad json"))
		rt.Assert("C20.bind-error-answered-400", c20is400(c))
		rt.Reach("bind-400")
		return
	}
	c := c20serve(dm, nil)
	rt.Assert("C20.exactly-one-response", len(c.Calls) == 1)
	rt.Assert("C20.response-is-200-with-ranking-or-400-with-error", c20is200(c) || c20is400(c))
	if c20is200(c) {
		rt.Reach("ok-200")
		ch := c.Calls[0].Body.(*model.DecisionMakerChoice)
		rt.Assert("C20.valid-request-has-result-and-biases", len(ch.Result) == len(dm.ChoseToMake) && len(ch.Biases) == len(dm.Biases))
	} else {
		rt.Reach("panic-400")
		// only the listed known finding may turn a valid request into an error
		rt.Assert("C20.valid-request-answered-200", false)
	}
}

// every documented constraint, violated one at a time on an otherwise valid request
var c20violations = []string{
	"unknown-method", "empty-method", "unknown-bias", "unknown-ordering", "unknown-fatigue-function", "unknown-anchoring-function", "unknown-levels-function",
	"unknown-reference-points", "unknown-applier", "unknown-draw-resolution", "unknown-reference-criterion-type",
	"duplicate-criterion", "inverted-range", "empty-range", "missing-value", "missing-weight", "missing-weights-param", "missing-electre-criterion", "missing-threshold-value",
	"choquet-weight-above-1", "choquet-weight-below-0", "choquet-cost-criterion", "choquet-missing-capacity",
	"electre-k-not-positive", "electre-p-not-above-q", "electre-v-not-above-p", "electre-distillation-negative",
	"omission-ratio-out-of-range", "reversal-ratio-out-of-range", "mixing-ratio-out-of-range", "max-below-min",
	"inc-coefficient-out-of-range", "dec-coefficient-out-of-range", "inc-min-out-of-range", "dec-max-out-of-range",
	"bounding-scaling-zero", "concealment-scaling-zero", "unknown-alternative", "unknown-current-choice", "no-anchoring-alternatives", "unknown-anchoring-alternative", "owa-weight-count",
}

func c20outside(name string, lo, hi float64) float64 {
	// a number anywhere outside [lo, hi]
	x := rt.FloatIn(name, lo-4, hi+4)
	rt.Assume(rt.Or(x < lo, x > hi))
	return x
}

func c20violate(v string) *model.DecisionMaker {
	mp := func(dm *model.DecisionMaker) map[string]interface{} { return dm.MethodParameters }
	switch v {
	case "unknown-method":
		dm := c20valid("weightedSum", "")
		dm.PreferenceFunction = "noSuchMethod"
		return dm
	case "electre-distillation-negative":
		// s(x) = a*x + b negative somewhere on [0,1] (rejected since the repair of the non-terminating distillation)
		dm := c20valid("electreIII", "")
		a, b := rt.FloatIn("distillation.a", -2, 2), rt.FloatIn("distillation.b", -2, 2)
		rt.Assume(rt.Or(b < 0, a+b < 0))
		mp(dm)["electreDistillation"] = map[string]interface{}{"a": a, "b": b}
		return dm
	case "empty-method":
		dm := c20valid("weightedSum", "")
		dm.PreferenceFunction = "  "
		return dm
	case "unknown-bias":
		dm := c20valid("weightedSum", "")
		dm.Biases = []interface{}{map[string]interface{}{"name": "noSuchBias"}}
		return dm
	case "unknown-ordering":
		dm := c20valid("weightedSum", "criteriaOmission")
		dm.Biases[0].(map[string]interface{})["props"].(map[string]interface{})["ordering"] = "noSuchOrdering"
		return dm
	case "unknown-fatigue-function":
		dm := c20valid("weightedSum", "fatigue")
		dm.Biases[0].(map[string]interface{})["props"].(map[string]interface{})["function"] = "noSuchFunction"
		return dm
	case "unknown-anchoring-function":
		dm := c20valid("weightedSum", "anchoring")
		dm.Biases[0].(map[string]interface{})["props"].(map[string]interface{})["gain"] = map[string]interface{}{"function": "noSuchFunction"}
		return dm
	case "unknown-reference-points":
		dm := c20valid("weightedSum", "anchoring")
		dm.Biases[0].(map[string]interface{})["props"].(map[string]interface{})["referencePoints"] = map[string]interface{}{"function": "noSuch"}
		return dm
	case "unknown-applier":
		dm := c20valid("weightedSum", "anchoring")
		dm.Biases[0].(map[string]interface{})["props"].(map[string]interface{})["applier"] = map[string]interface{}{"function": "noSuch"}
		return dm
	case "unknown-levels-function":
		dm := c20valid("satisfactionHeuristic", "")
		mp(dm)["function"] = "noSuchFunction"
		return dm
	case "unknown-draw-resolution":
		dm := c20valid("majorityHeuristic", "")
		mp(dm)["drawResolution"] = "noSuchPolicy"
		return dm
	case "unknown-reference-criterion-type":
		dm := c20valid("weightedSum", "criteriaConcealment")
		dm.Biases[0].(map[string]interface{})["props"].(map[string]interface{})["referenceCriterionType"] = "noSuchType"
		return dm
	case "duplicate-criterion":
		dm := c20valid("weightedSum", "")
		dm.Criteria = append(dm.Criteria, dm.Criteria[0])
		return dm
	case "inverted-range", "empty-range":
		dm := c20valid("weightedSum", "")
		lo := rt.FloatIn("range.min", -4, 4)
		hi := lo
		if v == "inverted-range" {
			hi = rt.FloatIn("range.max", -8, 4)
			rt.Assume(hi < lo)
		}
		dm.Criteria[0].ValuesRange = &utils.ValueRange{Min: lo, Max: hi}
		return dm
	case "missing-value":
		dm := c20valid("weightedSum", "")
		delete(dm.KnownAlternatives[1].Criteria, dm.Criteria[1].Id)
		return dm
	case "missing-weight":
		dm := c20valid(rt.OneOf("weighted-method", "weightedSum", "owa", "majorityHeuristic", "aspectEliminationHeuristic"), "")
		delete(mp(dm)["weights"].(map[string]interface{}), dm.Criteria[0].Id)
		return dm
	case "missing-weights-param":
		dm := c20valid(rt.OneOf("weighted-method", "weightedSum", "owa", "choquetIntegral"), "")
		delete(mp(dm), "weights")
		return dm
	case "missing-electre-criterion":
		dm := c20valid("electreIII", "")
		delete(mp(dm)["electreCriteria"].(map[string]interface{}), dm.Criteria[0].Id)
		return dm
	case "missing-threshold-value":
		dm := c20valid(rt.OneOf("levels-method", "aspectEliminationHeuristic", "satisfactionHeuristic"), "")
		ls := mp(dm)["params"].(map[string]interface{})["thresholds"].([]interface{})
		delete(ls[0].(map[string]interface{}), dm.Criteria[0].Id)
		return dm
	case "choquet-weight-above-1", "choquet-weight-below-0":
		dm := c20valid("choquetIntegral", "")
		w := mp(dm)["weights"].(map[string]interface{})
		if v == "choquet-weight-above-1" {
			x := rt.FloatIn("capacity", 1, 8)
			rt.Assume(x > 1)
			w["c1"] = x
		} else {
			x := rt.FloatIn("capacity", -8, 0)
			rt.Assume(x < 0)
			w["c1,c2"] = x
		}
		return dm
	case "choquet-cost-criterion":
		dm := c20valid("choquetIntegral", "")
		dm.Criteria[1].Type = model.Cost
		return dm
	case "choquet-missing-capacity":
		dm := c20valid("choquetIntegral", "")
		delete(mp(dm)["weights"].(map[string]interface{}), "c1,c2")
		delete(mp(dm)["weights"].(map[string]interface{}), "c2,c1") // whichever order the request builder wrote the key in
		return dm
	case "electre-k-not-positive":
		dm := c20valid("electreIII", "")
		x := rt.FloatIn("k", -4, 0)
		mp(dm)["electreCriteria"].(map[string]interface{})["c1"].(map[string]interface{})["k"] = x
		return dm
	case "electre-p-not-above-q":
		dm := c20valid("electreIII", "")
		e := mp(dm)["electreCriteria"].(map[string]interface{})["c1"].(map[string]interface{})
		q := rt.FloatIn("q", 0.125, 8)
		p := rt.FloatIn("p", 0.0625, 8)
		rt.Assume(p <= q)
		e["q"], e["p"] = map[string]interface{}{"b": q}, map[string]interface{}{"b": p}
		delete(e, "v")
		return dm
	case "electre-v-not-above-p":
		dm := c20valid("electreIII", "")
		e := mp(dm)["electreCriteria"].(map[string]interface{})["c1"].(map[string]interface{})
		p := rt.FloatIn("p", 0.5, 8)
		vv := rt.FloatIn("v", 0.0625, 8)
		rt.Assume(vv <= p)
		e["q"], e["p"], e["v"] = map[string]interface{}{"b": 0.25}, map[string]interface{}{"b": p}, map[string]interface{}{"b": vv}
		return dm
	case "omission-ratio-out-of-range", "reversal-ratio-out-of-range":
		b := "criteriaOmission"
		if v == "reversal-ratio-out-of-range" {
			b = "preferenceReversal"
		}
		dm := c20valid("weightedSum", b)
		dm.Biases[0].(map[string]interface{})["props"].(map[string]interface{})["ratio"] = c20outside("ratio", 0, 1)
		return dm
	case "mixing-ratio-out-of-range":
		dm := c20valid("weightedSum", "criteriaMixing")
		dm.Biases[0].(map[string]interface{})["props"].(map[string]interface{})["mixingRatio"] = c20outside("mixingRatio", 0, 1)
		return dm
	case "max-below-min":
		dm := c20valid("weightedSum", "criteriaOmission")
		p := dm.Biases[0].(map[string]interface{})["props"].(map[string]interface{})
		p["min"], p["max"] = float64(2), float64(1)
		return dm
	case "inc-coefficient-out-of-range", "inc-min-out-of-range":
		dm := c20valid("aspectEliminationHeuristic", "")
		mp(dm)["function"] = rt.OneOf("inc-series", "idealAdditiveCoefficient", "idealMultipliedCoefficient")
		p := map[string]interface{}{"coefficient": 0.5, "minValue": 0.25, "maxValue": float64(1)}
		if v == "inc-coefficient-out-of-range" {
			x := rt.FloatIn("coefficient", -2, 3)
			rt.Assume(rt.Or(x <= 0, x >= 1))
			p["coefficient"] = x
		} else {
			p["minValue"] = c20outside("minValue", 0, 1)
		}
		mp(dm)["params"] = p
		return dm
	case "dec-coefficient-out-of-range", "dec-max-out-of-range":
		dm := c20valid("satisfactionHeuristic", "")
		mp(dm)["function"] = rt.OneOf("dec-series", "idealSubtractiveCoefficient", "idealMultipliedCoefficient")
		p := map[string]interface{}{"coefficient": 0.5, "minValue": 0.25, "maxValue": float64(1)}
		if v == "dec-coefficient-out-of-range" {
			x := rt.FloatIn("coefficient", -2, 3)
			rt.Assume(rt.Or(x <= 0, x >= 1))
			p["coefficient"] = x
		} else {
			x := rt.FloatIn("maxValue", -2, 3)
			rt.Assume(rt.Or(x <= 0, x > 1))
			p["maxValue"] = x
		}
		mp(dm)["params"] = p
		return dm
	case "bounding-scaling-zero":
		dm := c20valid("weightedSum", rt.OneOf("bounded-bias", "fatigue", "criteriaConcealment"))
		dm.Biases[0].(map[string]interface{})["props"].(map[string]interface{})["allowedValuesRangeScaling"] = float64(0)
		return dm
	case "concealment-scaling-zero":
		dm := c20valid("weightedSum", "criteriaConcealment")
		dm.Biases[0].(map[string]interface{})["props"].(map[string]interface{})["newCriterionScaling"] = float64(0)
		return dm
	case "unknown-alternative":
		dm := c20valid("weightedSum", "")
		dm.ChoseToMake = append(dm.ChoseToMake, "zz")
		return dm
	case "unknown-current-choice":
		dm := c20valid(rt.OneOf("cc-method", "majorityHeuristic", "satisfactionHeuristic"), "")
		mp(dm)["currentChoice"] = "zz"
		return dm
	case "no-anchoring-alternatives":
		dm := c20valid("weightedSum", "anchoring")
		dm.Biases[0].(map[string]interface{})["props"].(map[string]interface{})["anchoringAlternatives"] = []interface{}{}
		return dm
	case "unknown-anchoring-alternative":
		dm := c20valid("weightedSum", "anchoring")
		dm.Biases[0].(map[string]interface{})["props"].(map[string]interface{})["anchoringAlternatives"] = []interface{}{map[string]interface{}{"alternative": "zz", "coefficient": float64(1)}}
		return dm
	case "owa-weight-count":
		dm := c20valid("owa", "")
		mp(dm)["weights"].(map[string]interface{})["zz_extra"] = 0.5
		return dm
	}
	panic("unknown violation " + v)
}

// c20baseOf: the registered method and bias variant a (possibly invalid) request is built on ("" if the method name itself is the violation)
func c20baseOf(dm *model.DecisionMaker) (string, string) {
	method := ""
	for _, m := range Methods {
		if m == dm.PreferenceFunction {
			method = m
		}
	}
	variant := ""
	if len(dm.Biases) > 0 {
		if b, ok := dm.Biases[0].(map[string]interface{}); ok {
			name, _ := b["name"].(string)
			for _, n := range BiasNames {
				if n == name {
					variant = n
				}
			}
			if variant == "anchoring" {
				if props, ok := b["props"].(map[string]interface{}); ok {
					if ap, ok := props["applier"].(map[string]interface{}); ok && ap["function"] == "newCriterion" {
						variant = "anchoring/newCriterion"
					}
				}
			}
		}
	}
	if method == "owa" && AddsCriterion(variant) {
		variant = "" // known finding: owa with a criterion-adding bias is not answered 200
	}
	return method, variant
}

//verif:harness HC20_rejects mode=REAL reach=rejected,served-after-rejection fatal=violation
func HC20_rejects() {
	v := rt.OneOf("violation", c20violations...)
	rt.SetDrawMode(1)
	dm := c20violate(v)
	// a valid request of the same method (and bias kind) is served before and after the rejected one
	method, variant := c20baseOf(dm)
	var before *FakeContext
	if method != "" {
		before = c20serve(c20valid(method, variant), nil)
	}
	rt.Epoch()
	c := c20serve(dm, nil)
	rt.Assert("C20.rejected-request-leaves-nothing-behind", rt.SharedWrites() == 0)
	if before != nil && c20is200(before) {
		after := c20serve(c20valid(method, variant), nil)
		rt.Assert("C20.later-valid-request-still-answered-200", c20is200(after))
		if c20is200(after) {
			rt.Reach("served-after-rejection")
			rt.Assert("C20.later-valid-request-answered-as-before", rt.DeepEqual(before.Calls[0].Body, after.Calls[0].Body))
		}
	}
	rt.Assert("C20.exactly-one-response", len(c.Calls) == 1)
	rt.Assert("C20.violated-constraint-is-answered-400:"+v, c20is400(c))
	rt.Assert("C20.violated-constraint-is-never-answered-with-a-ranking", !c20is200(c))
	if c20is400(c) {
		rt.Reach("rejected")
		rt.Assert("C20.error-response-echoes-the-request", c.Calls[0].Body.(requestError).Request == interface{}(c.lastRequest()))
	}
}

//verif:harness HC20_terminates_electre mode=REAL reach=answered budget=finding maxdepth=120
func HC20_terminates_electre() {
	A := rt.IntRange("A", 2, 3)
	dm := Request(ReqOpts{Method: "electreIII", A: A, K: 1, Considered: A, Values: rt.IntRange("values", 1, 2), ConcreteParams: true, ElectreThresholds: rt.OneOf("thresholds", "none", "qp"), CritTypes: "gain"})
	fa, fb := rt.FloatIn("distillation.a", -2, 2), rt.FloatIn("distillation.b", -2, 2)
	dm.MethodParameters["electreDistillation"] = map[string]interface{}{"a": fa, "b": fb}
	c := c20serve(dm, nil)
	rt.Assert("C20.exactly-one-response", len(c.Calls) == 1)
	rt.Assert("C20.response-is-200-or-400", c20is200(c) || c20is400(c))
	rt.Reach("answered")
}


//verif:bounds C20 HC20_methods_registered: the extracted registry lists exactly the seven documented methods, each with a listener of the same name and a non-nil parameter prototype (the input of the schema reflection that GET /api/preferenceFunctions performs; the reflection itself is outside)
//verif:harness HC20_methods_registered mode=REAL reach=seven
func HC20_methods_registered() {
	rt.Assert("C20.seven-methods-registered", len(funcs.Functions) == 7 && len(biasListeners.Listeners) == 7)
	var names []string
	for _, f := range funcs.Functions {
		names = append(names, f.Identifier())
		rt.Assert("C20.method-has-parameter-prototype", f.MethodParameters() != nil)
	}
	for _, m := range Methods {
		n := 0
		for _, x := range names {
			if x == m {
				n++
			}
		}
		rt.Assert("C20.documented-method-registered-once", n == 1)
		found := false
		for _, l := range biasListeners.Listeners {
			found = found || l.Identifier() == m
		}
		rt.Assert("C20.method-has-a-bias-listener", found)
	}
	rt.Assert("C20.six-biases-registered", len(biases) == 6)
	for _, b := range BiasNames {
		_, ok := biases[b]
		rt.Assert("C20.documented-bias-registered", ok)
	}
	rt.Reach("seven")
}
