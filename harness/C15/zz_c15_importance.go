//go:build verif

//verif:dir zz_pipeline
package zz_pipeline

import (
	"strings"

	"github.com/Azbesciak/RealDecisionMaker/lib/logic/biases/criteria-omission"
	"github.com/Azbesciak/RealDecisionMaker/lib/model"
	vh "github.com/Azbesciak/RealDecisionMaker/lib/zz_vh"
	rt "github.com/Azbesciak/RealDecisionMaker/lib/zz_verifrt"
)

//verif:bounds C15 HC15_weakest: for each of the seven methods the real listener's RankCriteriaAscending (on parameters parsed by the real ParseParams from the JSON-shaped request): K=3 criteria, A=3 known alternatives of which 2 are considered, every value / weight / capacity / k symbolic; the ranking must be a permutation of the declared criteria in non-decreasing order of the documented importance (weight x summed considered values for weighted sum, summed considered values for OWA and satisfaction, weight for majority and aspect elimination, k for ELECTRE III, decomposed capacity contribution for Choquet), ties in declaration order
//verif:bounds C15 HC15_equivalence: for each method a request with a criteria-omission bias (default ordering, K=3, one or two criteria omitted) is decided and compared with the same request from which the reported criteria were deleted everywhere (criteria list, alternative values, method parameters): equal rankings and evaluations; concrete value families, symbolic weights (aspect elimination: pairwise distinct)

func c15importance(method string, dm *model.DecisionMaker, c model.Criterion, considered []model.AlternativeWithCriteria) float64 {
	sum := 0.0
	for _, a := range considered {
		sum += a.Criteria[c.Id]
	}
	switch method {
	case "weightedSum":
		w := dm.MethodParameters["weights"].(map[string]interface{})[c.Id].(float64)
		s := 0.0
		for _, a := range considered {
			s += w * a.Criteria[c.Id]
		}
		return s
	case "owa", "satisfactionHeuristic":
		return sum
	case "majorityHeuristic", "aspectEliminationHeuristic":
		return dm.MethodParameters["weights"].(map[string]interface{})[c.Id].(float64)
	case "electreIII":
		return dm.MethodParameters["electreCriteria"].(map[string]interface{})[c.Id].(map[string]interface{})["k"].(float64)
	}
	panic("no importance for " + method)
}

// Choquet: contribution of every criterion = sum over considered alternatives and over tie groups of the
// group's increment x capacity of the remaining set, credited to every criterion of that set
func c15choquetImportance(dm *model.DecisionMaker, crit model.Criteria, considered []model.AlternativeWithCriteria) map[string]float64 {
	caps := dm.MethodParameters["weights"].(map[string]interface{})
	imp := map[string]float64{}
	for _, c := range crit {
		imp[c.Id] = 0
	}
	for ai := range considered {
		a := &considered[ai]
		ids := append([]string{}, *crit.Names()...)
		for x := 0; x < len(ids); x++ {
			for y := x + 1; y < len(ids); y++ {
				if rt.Branch(a.Criteria[ids[y]] < a.Criteria[ids[x]]) {
					ids[x], ids[y] = ids[y], ids[x]
				}
			}
		}
		prev := 0.0
		for x := 0; x < len(ids); {
			cur := a.Criteria[ids[x]]
			y := x + 1
			for ; y < len(ids); y++ {
				d := a.Criteria[ids[y]] - cur
				if !(d <= 0.00001 && d >= -0.00001) {
					break
				}
			}
			rest := append([]string{}, ids[x:]...)
			// canonical key: declaration order joined by commas (the harness builds the capacities that way)
			var keyIds []string
			for _, c := range crit {
				if vh.Contains(rest, c.Id) {
					keyIds = append(keyIds, c.Id)
				}
			}
			added := caps[strings.Join(keyIds, ",")].(float64) * (cur - prev)
			for _, id := range rest {
				imp[id] = imp[id] + added
			}
			prev = cur
			x = y
		}
	}
	return imp
}

//verif:harness HC15_weakest mode=REAL reach=ranked,tie
func HC15_weakest() {
	method := rt.OneOf("method", Methods...)
	o := ReqOpts{Method: method, A: 3, K: 3, Considered: 2, Levels: 1, ElectreThresholds: "none"}
	dm := Request(o)
	f := funcs.Fetch(method)
	dmp := &model.DecisionMakingParams{
		NotConsideredAlternatives: *dm.NotConsideredAlternatives(),
		ConsideredAlternatives:    *dm.AlternativesToConsider(),
		Criteria:                  dm.Criteria,
		MethodParameters:          (*f).ParseParams(dm),
	}
	l := biasListeners.Fetch(method)
	ranked := (*l).RankCriteriaAscending(dmp)
	rt.Assert("C15.ranking-has-every-criterion", len(*ranked) == len(dm.Criteria))
	if len(*ranked) != len(dm.Criteria) {
		return
	}
	rt.Reach("ranked")
	ids := *ranked.Criteria().Names()
	declared := *dm.Criteria.Names()
	for _, c := range declared {
		rt.Assert("C15.ranking-is-a-permutation", vh.Count(ids, c) == 1)
	}
	var choquet map[string]float64
	if method == "choquetIntegral" {
		choquet = c15choquetImportance(dm, dm.Criteria, dmp.ConsideredAlternatives)
	}
	imp := func(c model.Criterion) float64 {
		if choquet != nil {
			return choquet[c.Id]
		}
		return c15importance(method, dm, c, dmp.ConsideredAlternatives)
	}
	pos := func(id string) int {
		for i, d := range declared {
			if d == id {
				return i
			}
		}
		return -1
	}
	for i := 0; i+1 < len(*ranked); i++ {
		a, b := (*ranked)[i].Criterion, (*ranked)[i+1].Criterion
		ia, ib := imp(a), imp(b)
		rt.Assert("C15.weakest-first", ia <= ib)
		if rt.Branch(ia == ib) {
			rt.Reach("tie")
			rt.Assert("C15.ties-in-declaration-order", pos(a.Id) < pos(b.Id))
		}
	}
}

func c15reduce(dm *model.DecisionMaker, omitted []string) *model.DecisionMaker {
	out := *dm
	out.Biases = nil
	out.Criteria = nil
	for _, c := range dm.Criteria {
		if !vh.Contains(omitted, c.Id) {
			out.Criteria = append(out.Criteria, c)
		}
	}
	out.KnownAlternatives = nil
	for _, a := range dm.KnownAlternatives {
		w := model.Weights{}
		for k, v := range a.Criteria {
			if !vh.Contains(omitted, k) {
				w[k] = v
			}
		}
		out.KnownAlternatives = append(out.KnownAlternatives, model.AlternativeWithCriteria{Id: a.Id, Criteria: w})
	}
	mentions := func(key string) bool {
		for _, part := range strings.Split(key, ",") {
			if vh.Contains(omitted, part) {
				return true
			}
		}
		return false
	}
	filter := func(m map[string]interface{}) map[string]interface{} {
		r := map[string]interface{}{}
		for k, v := range m {
			if !mentions(k) {
				r[k] = v
			}
		}
		return r
	}
	mp := map[string]interface{}{}
	for k, v := range dm.MethodParameters {
		switch k {
		case "weights", "electreCriteria":
			mp[k] = filter(v.(map[string]interface{}))
		case "params":
			p := map[string]interface{}{}
			for pk, pv := range v.(map[string]interface{}) {
				if pk == "thresholds" {
					var ls []interface{}
					for _, l := range pv.([]interface{}) {
						ls = append(ls, filter(l.(map[string]interface{})))
					}
					p[pk] = ls
				} else {
					p[pk] = pv
				}
			}
			mp[k] = p
		default:
			mp[k] = v
		}
	}
	out.MethodParameters = mp
	return &out
}

//verif:harness HC15_equivalence mode=REAL reach=one-omitted,two-omitted
func HC15_equivalence() {
	method := rt.OneOf("method", Methods...)
	o := ReqOpts{Method: method, A: 3, K: 3, Considered: 3, Levels: 1, ElectreThresholds: "qp", Values: rt.IntRange("values", 1, 2)}
	o.ConcreteParams = method == "electreIII" || method == "choquetIntegral"
	if rt.Bool("one-not-considered") {
		o.Considered = 2
	}
	dm := Request(o)
	if method == "aspectEliminationHeuristic" {
		w := dm.MethodParameters["weights"].(map[string]interface{})
		rt.Assume(w["c1"].(float64) != w["c2"].(float64))
		rt.Assume(w["c1"].(float64) != w["c3"].(float64))
		rt.Assume(w["c2"].(float64) != w["c3"].(float64))
	}
	ratio := 0.5
	if rt.Bool("omit-two") {
		ratio = 0.7
	}
	dm.Biases = []interface{}{Bias("criteriaOmission", map[string]interface{}{"ratio": ratio})}
	out := Decide(dm)
	rt.Assert("C15.equiv.answered", !out.Panicked)
	if out.Panicked || len(out.Rec.Steps) != 1 {
		return
	}
	rep := out.Rec.Steps[0].Props.(criteria_omission.CriteriaOmissionResult)
	omitted := *rep.OmittedCriteria.Names()
	if len(omitted) == 1 {
		rt.Reach("one-omitted")
	} else if len(omitted) == 2 {
		rt.Reach("two-omitted")
	}
	out2 := Decide(c15reduce(dm, omitted))
	rt.Assert("C15.equiv.reduced-request-answered", !out2.Panicked)
	if out2.Panicked {
		return
	}
	rt.Assert("C15.decision-equals-request-with-criteria-deleted", rt.DeepEqual(out.Choice.Result, out2.Choice.Result))
}
