//go:build verif

//verif:dir zz_pipeline
package zz_pipeline

import (
	"fmt"
	"strings"

	"github.com/Azbesciak/RealDecisionMaker/lib/model"
	rt "github.com/Azbesciak/RealDecisionMaker/lib/zz_verifrt"
)

// The repository's own example requests (httpClient/examples/*/request.json, turned into Go literals on every
// run) through the real MakeDecision with the real PRNG - once by the engine, once natively; the validation
// step compares the observed rankings, links and values bit for bit.

//verif:harness HSELF_examples mode=REAL reach=ran
func HSELF_examples() {
	if rt.Symbolic() {
		// nothing is symbolic here: the point is the engine's CONCRETE run against the native run (validation step)
		rt.Reach("ran")
		return
	}
	rt.SetDrawMode(-1)
	for _, ex := range ExampleRequests {
		out := Decide(ex.Build())
		if out.Panicked {
			rt.ObserveS(ex.Name, "panicked")
			continue
		}
		for i, e := range out.Choice.Result {
			rt.ObserveS(fmt.Sprintf("%s.%d", ex.Name, i), e.Alternative.Id+"->"+strings.Join([]string(e.BetterThanOrSameAs), ","))
			if v, ok := e.Evaluation.(model.EvaluationSingleValue); ok {
				rt.Observe(ex.Name+"."+e.Alternative.Id, v.Value)
			}
		}
		for i, b := range out.Choice.Biases {
			bp := b.(model.BiasParams)
			fired := "skipped"
			if bp.Props != nil {
				fired = "fired"
			}
			rt.ObserveS(fmt.Sprintf("%s.bias%d", ex.Name, i), bp.Name+":"+fired)
		}
	}
	rt.SetDrawMode(0)
	rt.Reach("ran")
}
