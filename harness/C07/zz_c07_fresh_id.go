//go:build verif

//verif:dir model
package model

import (
	"strconv"

	rt "github.com/Azbesciak/RealDecisionMaker/lib/zz_verifrt"
)

//verif:bounds C07 HC07_fresh_id: one inductive step of the id mechanism (Criteria.NotUsedName + Criteria.Add) from an arbitrary criteria list: any subset of {base, base1, ..., base4} (the ids earlier additions produce; omissions can remove any of them - HC07_compose_ids reaches such states through the pipeline) next to 1..2 request criteria, in two list orders; three base names (the reserved names of concealment, mixing and anchoring are of this shape)
//verif:outside C07: request criteria whose own ids start with a reserved base name and end in a number above 4

//verif:harness HC07_fresh_id mode=REAL reach=gap-below-count,no-gap,none-yet
func HC07_fresh_id() {
	base := rt.OneOf("base", "__concealedCriterion__", "x", "mix_c1+c2")
	var crit Criteria
	own := rt.IntRange("request-criteria", 1, 2)
	for i := 0; i < own; i++ {
		crit = append(crit, Criterion{Id: "c" + strconv.Itoa(i+1), Type: Gain})
	}
	present := 0
	gap := false
	for i := 0; i <= 4; i++ {
		id := base
		if i > 0 {
			id = base + strconv.Itoa(i)
		}
		if rt.Bool("has-" + strconv.Itoa(i)) {
			crit = append(crit, Criterion{Id: id, Type: Gain})
			present++
		} else if present > 0 || i == 0 {
			gap = true
		}
	}
	if rt.Bool("reversed") {
		for i, j := 0, len(crit)-1; i < j; i, j = i+1, j-1 {
			crit[i], crit[j] = crit[j], crit[i]
		}
	}
	switch {
	case present == 0:
		rt.Reach("none-yet")
	case gap:
		rt.Reach("gap-below-count")
	default:
		rt.Reach("no-gap")
	}
	before := len(crit)
	name := crit.NotUsedName(base)
	for _, c := range crit {
		rt.Assert("C07.new-criterion-id-is-not-in-use", c.Id != name)
	}
	panicked := rt.Panics(func() {
		added := crit.Add(&Criterion{Id: name, Type: Gain})
		rt.Assert("C07.add-appends-exactly-one", len(added) == before+1 && added[before].Id == name)
		rt.Assert("C07.add-leaves-the-list-it-was-given", len(crit) == before)
		for i := 0; i < before; i++ {
			rt.Assert("C07.add-keeps-existing-criteria", added[i].Id == crit[i].Id)
		}
	})
	rt.Assert("C07.adding-the-new-criterion-does-not-fail", !panicked)
}
