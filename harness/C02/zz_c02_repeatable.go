//go:build verif

//verif:dir zz_pipeline
package zz_pipeline

import (
	"github.com/Azbesciak/RealDecisionMaker/lib/model"
	rt "github.com/Azbesciak/RealDecisionMaker/lib/zz_verifrt"
)

//verif:bounds C02 HC02_maporder: every method x (no bias | one bias variant): the same request is decided twice on one path, once with every map iterated in insertion order and once under another order oracle (reverse insertion, sorted, reverse sorted; thorough: also every rotation), and the two responses must be equal (or both rejected); A=3, K=3 criteria; concrete criterion value families; requests without bias or with omission/reversal keep symbolic weights and ratios (REAL mode), the draw-consuming biases run with two fixed draw patterns and fixed numeric parameters
//verif:bounds C02 HC02_history: request X, a different concrete request Y, X again on the same registries: same verdict and equal responses; no store into registry objects
//verif:outside C02: bit-level effects of a float sum accumulated in map order (REAL mode compares over the reals; none of the 22 range-over-map sites of the pinned tree accumulates floats across keys - the bit-precise attempt timed out in the solver and is not registered); 'fresh process' is covered only by the argument that the engine starts every path from the package initial state and nothing else persists; the wording of error messages (allowed to differ); mapstructure's own iteration when two keys differ only in case; maps with more than 4 keys are not permuted exhaustively
//verif:assume C02: seeded draws are a function of (seed, index) by construction of the model: what is checked is that the code obtains randomness only that way - reaching time.*, os.*, top-level math/rand.* or a goroutine is reported as a violation

//verif:harness HC02_maporder mode=REAL reach=answered,rejected
func HC02_maporder() {
	c := ChooseStd(BiasVariants)
	order := rt.IntRange("order", 1, rt.Pick(3, 5))
	if order > 3 {
		order = 10 + (order - 3) // rotations
	}
	c07known(c.Method, []string{c.Variant})
	// biases that compute with seeded draws run with fixed draw patterns and fixed numeric parameters here: what
	// varies in this harness is the iteration order of every map, which the engine chooses
	concrete := !(c.Variant == "" || c.Variant == "criteriaOmission" || c.Variant == "preferenceReversal")
	if concrete {
		rt.SetDrawMode(rt.IntRange("draw-pattern", 1, 2))
	}
	c.K = 3
	dm1 := c.BuildOpt("", concrete)
	dm2 := c.BuildOpt("", concrete)
	rt.MapOrder(0)
	out1 := Decide(dm1)
	rt.MapOrder(order)
	out2 := Decide(dm2)
	rt.MapOrder(0)
	rt.Assert("C02.same-verdict-under-any-map-order", out1.Panicked == out2.Panicked)
	if out1.Panicked || out2.Panicked {
		rt.Reach("rejected")
		return
	}
	rt.Reach("answered")
	rt.Assert("C02.same-response-under-any-map-order", rt.DeepEqual(out1.Choice, out2.Choice))
}

//verif:bounds C02 HC02_maporder_values: every method, no bias, every criterion value a free real (near-ties inside the methods' own tolerances - 1e-5 in Choquet, 1e-6 in the majority comparison, 1e-8 rounding ties in the ranking - are paths), method parameters fixed numbers, A=3, K=2 (A=2, K=3 for Choquet; A=2 for owa and ELECTRE III): decided under insertion order and under another map order (reverse / sorted / reverse sorted), the two responses must be equal
//verif:harness HC02_maporder_values mode=REAL reach=answered budget_quick=10m
func HC02_maporder_values() {
	method := rt.OneOf("method", Methods...)
	order := rt.IntRange("order", 1, 3)
	c := StdChoice{Method: method, CC: "none", AllConsidered: true, Values: 0}
	if method == "choquetIntegral" {
		c.K, c.A = 3, 2
	}
	if method == "owa" {
		c.A = 2 // K=3 leaves equalities between 1e-8-rounded sums taken in different orders undecided (solver hangs)
	}
	if method == "electreIII" {
		c.A = 2
	}
	dm1 := c.BuildOpt("", true)
	dm2 := c.BuildOpt("", true)
	rt.MapOrder(0)
	out1 := Decide(dm1)
	rt.MapOrder(order)
	out2 := Decide(dm2)
	rt.MapOrder(0)
	rt.Assert("C02.same-verdict-under-any-map-order", out1.Panicked == out2.Panicked)
	if out1.Panicked || out2.Panicked {
		return
	}
	rt.Reach("answered")
	rt.Assert("C02.same-response-under-any-map-order", rt.DeepEqual(out1.Choice, out2.Choice))
}

//verif:harness HC02_history mode=REAL race=true reach=answered-twice
func HC02_history() {
	c := ChooseStd([]string{"criteriaOmission", "fatigue", "criteriaMixing", "criteriaConcealment"})
	other := StdChoice{Method: rt.OneOf("other-method", "majorityHeuristic", "aspectEliminationHeuristic", "electreIII"), Variant: "fatigue", CC: "none", AllConsidered: true, Values: 2, Rich: true}
	if other.Method == "electreIII" {
		other.Variant = "criteriaOmission"
	}
	c07known(c.Method, []string{c.Variant})
	x1 := c.Build("")
	rt.Epoch()
	out1 := Decide(x1)
	rt.SetDrawMode(2)
	Decide(other.BuildOpt("y.", true))
	rt.SetDrawMode(0)
	x3 := c.Build("")
	out3 := Decide(x3)
	rt.Assert("C02.no-state-kept-between-requests", rt.SharedWrites() == 0)
	if rt.RaceMode() {
		// native confirmation of a store into shared state: X and Y requests interleaved under the race detector
		RaceRun(func(kind int) *model.DecisionMaker {
			if kind == 0 {
				return c.Build("")
			}
			return other.BuildOpt("y.", true)
		}, 2, out1)
	}
	rt.Assert("C02.same-verdict-after-other-requests", out1.Panicked == out3.Panicked)
	if !out1.Panicked && !out3.Panicked {
		rt.Reach("answered-twice")
		rt.Assert("C02.same-response-after-other-requests", rt.DeepEqual(out1.Choice, out3.Choice))
	}
}
