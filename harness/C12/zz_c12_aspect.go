//go:build verif

//verif:dir logic/limited-rationality/aspect-elimination
package aspect_elimination

import (
	"github.com/Azbesciak/RealDecisionMaker/lib/model"
	vh "github.com/Azbesciak/RealDecisionMaker/lib/zz_vh"
	rt "github.com/Azbesciak/RealDecisionMaker/lib/zz_verifrt"
)

//verif:bounds C12 HC12_elimination: considered A in 1..4 of A or A+1 known alternatives, K<=2 (quick) / K<=3 (thorough) criteria (first gain or cost, others alternate), pairwise distinct symbolic weights; aspiration levels: 1..2 (quick) / 1..3 (thorough) explicit threshold levels with free values, or a generated series (additive / multiplied) with concrete parameters from a small family; fixed alternative order; all values free reals
//verif:bounds C12 HC12_shuffled: seeded-random alternative order (draws symbolic), A<=3, K<=2, explicit levels; only the order-independent clauses
//verif:outside C12: ties between criterion weights (broken by the seeded generator; only well-formedness is claimed there, see C01); symbolic series parameters (see C14); sizes beyond the bounds
//verif:assume C12: the threshold list used by the oracle is obtained from a second instance of the real satisfaction-levels source (its content is the subject of C14)

// criteria from the heaviest weight down (weights are pairwise distinct)
func c12byWeight(s *c12setup) []model.Criterion {
	out := []model.Criterion{}
	used := map[string]bool{}
	for range s.crit {
		best := -1
		for i := range s.crit {
			if used[s.crit[i].Id] {
				continue
			}
			if best < 0 || s.params.Weights[s.crit[i].Id] > s.params.Weights[s.crit[best].Id] {
				best = i
			}
		}
		used[s.crit[best].Id] = true
		out = append(out, s.crit[best])
	}
	return out
}

func c12worse(a *model.AlternativeWithCriteria, c *model.Criterion, threshold float64) bool {
	return vh.Signed(c, a.Criteria[c.Id]) < vh.Signed(c, threshold)
}

// c12relational asserts the clauses that do not depend on the search order.
func c12relational(tag string, s *c12setup, r *model.AlternativesRanking, order []model.Criterion) {
	seenEliminated := false
	for i := range *r {
		e := (*r)[i]
		ev := e.Evaluation.(AspectEliminationEvaluation)
		if len(ev.NotSatisfiedThreshold) == 0 {
			// a survivor: ranked above every eliminated alternative
			rt.Assert(tag+".survivors-first", !seenEliminated)
			continue
		}
		seenEliminated = true
		rt.Assert(tag+".one-failed-criterion", len(ev.NotSatisfiedThreshold) == 1)
		rt.Assert(tag+".level-index-in-range", ev.ThresholdsIndex >= 0 && ev.ThresholdsIndex < len(s.levels))
		if ev.ThresholdsIndex < 0 || ev.ThresholdsIndex >= len(s.levels) {
			continue
		}
		a := vh.FindAlt(s.known, e.Alternative.Id)
		failedAt := -1
		for k := range order {
			if t, ok := ev.NotSatisfiedThreshold[order[k].Id]; ok {
				failedAt = k
				rt.Assert(tag+".reported-threshold", t == s.levels[ev.ThresholdsIndex][order[k].Id])
				rt.Assert(tag+".really-failed", c12worse(a, &order[k], t))
			}
		}
		rt.Assert(tag+".failed-criterion-known", failedAt >= 0)
		// it passed every check made before the one it failed
		for l := 0; l <= ev.ThresholdsIndex; l++ {
			for k := range order {
				if l == ev.ThresholdsIndex && k >= failedAt {
					break
				}
				rt.Assert(tag+".passed-earlier-checks", !c12worse(a, &order[k], s.levels[l][order[k].Id]))
			}
		}
	}
}

//verif:harness HC12_elimination mode=REAL reach=eliminated,two-survivors,stopped-early,cost,single,second-level
func HC12_elimination() {
	s := c12build(4, rt.Pick(2, 3), rt.Pick(2, 3), false)
	h := NewAspectEliminationHeuristic(c12sources, rt.Generators)
	r := h.Evaluate(s.dmp)
	vh.WellFormed("C12.wellformed", r, s.chose)
	order := c12byWeight(s)
	c12relational("C12", s, r, order)
	if s.crit[0].Type == model.Cost {
		rt.Reach("cost")
	}
	if len(s.chose) == 1 {
		rt.Reach("single")
	}

	// reference elimination over plain lists
	remaining := append([]string{}, s.chose...)
	type elim struct {
		id        string
		level     int
		criterion string
		threshold float64
	}
	var eliminated []elim
	done := len(remaining) <= 1
	for l := 0; l < len(s.levels) && !done; l++ {
		for k := 0; k < len(order) && !done; k++ {
			snapshot := append([]string{}, remaining...)
			for _, id := range snapshot {
				if c12worse(vh.FindAlt(s.known, id), &order[k], s.levels[l][order[k].Id]) {
					var keep []string
					for _, x := range remaining {
						if x != id {
							keep = append(keep, x)
						}
					}
					remaining = keep
					eliminated = append(eliminated, elim{id, l, order[k].Id, s.levels[l][order[k].Id]})
					rt.Reach("eliminated")
					if l >= 1 {
						rt.Reach("second-level")
					}
				}
				if len(remaining) <= 1 {
					done = true
					if l+1 < len(s.levels) || k+1 < len(order) {
						rt.Reach("stopped-early")
					}
					break
				}
			}
		}
	}
	if len(remaining) >= 2 {
		rt.Reach("two-survivors")
	}
	rt.Assert("C12.count", len(*r) == len(remaining)+len(eliminated))
	if len(*r) != len(remaining)+len(eliminated) {
		return
	}
	var top []string
	for i := 0; i < len(remaining); i++ {
		top = append(top, (*r)[i].Alternative.Id)
		ev := (*r)[i].Evaluation.(AspectEliminationEvaluation)
		rt.Assert("C12.survivor-has-no-failed-threshold", len(ev.NotSatisfiedThreshold) == 0)
	}
	rt.Assert("C12.survivors-first", vh.SameSet(top, remaining))
	for j := range eliminated {
		e := eliminated[len(eliminated)-1-j]
		got := (*r)[len(remaining)+j]
		ev := got.Evaluation.(AspectEliminationEvaluation)
		rt.Assert("C12.reverse-elimination-order", got.Alternative.Id == e.id)
		rt.Assert("C12.level-index", ev.ThresholdsIndex == e.level)
		t, ok := ev.NotSatisfiedThreshold[e.criterion]
		rt.Assert("C12.failed-criterion", ok && len(ev.NotSatisfiedThreshold) == 1)
		rt.Assert("C12.failed-threshold", t == e.threshold)
	}
}

//verif:harness HC12_shuffled mode=REAL reach=shuffled
func HC12_shuffled() {
	s := c12build(3, 2, 2, true)
	rt.Assume(s.params.Function == "thresholds")
	h := NewAspectEliminationHeuristic(c12sources, rt.Generators)
	r := h.Evaluate(s.dmp)
	vh.WellFormed("C12.shuffled.wellformed", r, s.chose)
	c12relational("C12.shuffled", s, r, c12byWeight(s))
	rt.Reach("shuffled")
}
