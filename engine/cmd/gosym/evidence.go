package main

import (
	"encoding/json"
	"fmt"
	"os"
	"os/exec"
	"path/filepath"
	"sort"
	"strings"
)

func solverVersion(bin string, arg string) string {
	out, err := exec.Command(bin, arg).CombinedOutput()
	if err != nil && len(out) == 0 {
		return "unavailable"
	}
	return strings.TrimSpace(strings.Split(string(out), "\n")[0])
}

func writeEvidence(prop, tier string, results []*harnessResult, kfs []knownFinding, wall, loadS float64, violations, inconclusive int) {
	states, transitions := 0, int64(0)
	traces := 0
	var samples []interface{}
	fnTotal := map[string]int{}
	var harnesses []interface{}
	queries := map[string]int{}
	solverS := 0.0
	obTotal, obDis := 0, 0
	merged, forks := 0, 0
	kfSeen := []string{}
	reach := map[string]int{}
	for _, hr := range results {
		r := hr.Report
		states += r.Paths
		transitions += r.Steps
		obTotal += r.ObTotal
		obDis += r.ObDischarged
		merged += r.Merged
		forks += r.Forks
		queries["total"] += r.Solver.Queries
		queries["sat"] += r.Solver.Sat
		queries["unsat"] += r.Solver.UnsatN
		queries["unknown"] += r.Solver.UnknownN
		queries["error"] += r.Solver.Errors
		solverS += r.Solver.Time.Seconds()
		for f, n := range r.FnCount {
			fnTotal[f] += n
		}
		for l, n := range r.Reached {
			reach[hr.Spec.Name+":"+l] = n
		}
		for _, s := range r.Samples {
			if len(samples) < 8 {
				if m, ok := s.(map[string]interface{}); ok {
					m["harness"] = hr.Spec.Name
				}
				samples = append(samples, s)
			}
		}
		h := map[string]interface{}{
			"harness": hr.Spec.Name, "arith_mode": r.Mode, "paths": r.Paths, "path_ends": r.Ends, "forks": r.Forks, "if_converted_regions": r.Merged,
			"ssa_instructions_executed": r.Steps, "obligations_by_assert": r.Obligations, "obligations": r.ObTotal, "discharged": r.ObDischarged,
			"obligation_unknown": r.ObUnknown, "feasibility_unknown_branch_kept": r.FeasUnknown, "solver_queries": r.Solver.Queries, "solver_time_s": round3(r.Solver.Time.Seconds()),
			"wall_s": round3(r.WallS), "max_path_condition_atoms": r.MaxPC, "reach_labels_required": hr.Spec.Reach, "reach_labels_missing": hr.MissingReach,
			"cross_check": hr.Cross, "cross_check_disagreements": hr.CrossDisagree, "inconclusive": hr.Inconclusive, "options": hr.Spec.Opts,
		}
		if len(r.EndDetails) > 0 {
			h["path_end_details"] = r.EndDetails
		}
		if hr.Validation != nil {
			h["translator_validation"] = hr.Validation
			traces += hr.Validation.Compared
		}
		var conf []interface{}
		for _, c := range hr.Confirmed {
			conf = append(conf, map[string]interface{}{"assertion": c.V.Assert, "replay": c.Replay, "note": c.V.Note})
			traces++
		}
		h["violations_confirmed_by_replay"] = conf
		h["counterexamples_not_reproduced"] = len(hr.Unconfirmed)
		for id, p := range hr.KFConfirmed {
			kfSeen = append(kfSeen, id+" (replay "+p+")")
			traces++
		}
		h["known_findings_unconfirmed"] = hr.KFUnconfirmed
		harnesses = append(harnesses, h)
	}
	if len(samples) == 0 {
		samples = append(samples, map[string]interface{}{"note": "no symbolic obligation was generated on this run"})
	}
	type fc struct {
		Name string `json:"function"`
		N    int    `json:"ssa_instructions_executed"`
	}
	var fns []fc
	for f, n := range fnTotal {
		if strings.Contains(f, "zz_verifrt") {
			continue
		}
		fns = append(fns, fc{f, n})
	}
	sort.Slice(fns, func(i, j int) bool { return fns[i].N > fns[j].N })
	if len(fns) > 80 {
		fns = fns[:80]
	}
	sort.Strings(kfSeen)
	var fixed []string
	for _, k := range kfs {
		if k.Property == prop && k.Status == "fixed" {
			fixed = append(fixed, fmt.Sprintf("fixed: property=%s %s %s", prop, k.Commit, k.What))
		}
	}
	verdict := "holds within the stated bounds"
	switch {
	case violations > 0:
		verdict = "VIOLATION (replayed against the native build)"
	case inconclusive > 0:
		verdict = "inconclusive"
	case len(kfSeen) > 0:
		verdict = "holds within the stated bounds outside the listed known findings"
	}
	ev := map[string]interface{}{
		"property_id": prop,
		"tier":        tier,
		"seed":        *flagSeed,
		"level":       "model_checking",
		"wall_s":      round3(wall),
		"violations":  violations,
		"coverage": map[string]interface{}{
			"states":                        states,
			"transitions":                   transitions,
			"traces_validated_against_impl": traces,
			"samples":                       samples,
			"explanation": "bounded symbolic model checking of the real code: states = completed symbolic paths of the go/ssa program built from /repo's working tree, " +
				"transitions = SSA instructions executed symbolically, traces_validated_against_impl = concrete vectors on which the engine and the native build agreed plus natively replayed counterexamples",
			"obligations":          obTotal,
			"discharged":           obDis,
			"functions_encoded":    fns,
			"harnesses":            harnesses,
			"paths_forked":         forks,
			"if_converted_regions": merged,
			"queries":              queries,
			"solver_time_s":        round3(solverS),
			"ssa_load_build_s":     round3(loadS),
			"solver_versions":      map[string]string{"primary": solverVersion("z3-new", "--version"), "cross_z3": solverVersion("/usr/bin/z3", "--version"), "cross_cvc5": solverVersion("cvc5", "--version")},
			"reach_labels":         reach,
			"known_findings_seen":  kfSeen,
			"fixed_findings":       fixed,
			"verdict":              verdict,
			"bounds":               boundsText(prop, tier),
			"exhaustive":           false,
		},
		"assumptions": assumptionsText(prop, results),
	}
	b, _ := json.MarshalIndent(ev, "", " ")
	dir := filepath.Join(*flagVerif, "evidence")
	os.MkdirAll(dir, 0o755)
	os.WriteFile(filepath.Join(dir, prop+".json"), b, 0o644)
}

func round3(f float64) float64 { return float64(int64(f*1000)) / 1000 }

// boundsText reads the bounds a property's harnesses state about themselves (//verif:bounds lines).
func boundsText(prop, tier string) []string {
	var out []string
	matches, _ := filepath.Glob(filepath.Join(*flagVerif, "harness", prop, "*.go"))
	sort.Strings(matches)
	for _, m := range matches {
		b, _ := os.ReadFile(m)
		for _, l := range strings.Split(string(b), "\n") {
			if strings.HasPrefix(l, "//verif:bounds ") {
				out = append(out, strings.TrimPrefix(l, "//verif:bounds "))
			}
			if strings.HasPrefix(l, "//verif:outside ") {
				out = append(out, "OUTSIDE THE CLAIM: "+strings.TrimPrefix(l, "//verif:outside "))
			}
		}
	}
	out = append(out, "engine unwinding bounds per path: call depth 400, 20000 iterations per loop header, 4e6 SSA instructions; sorts of more than 12 (stable: 20) elements are a bound error; hitting a bound is reported as inconclusive, never as success")
	return out
}

func assumptionsText(prop string, results []*harnessResult) []string {
	out := []string{
		"go/ssa lowering of /repo's working tree and the engine's SSA semantics (checked on every run by running sampled concrete vectors through the engine and the native build)",
		"append capacities are taken from the real runtime (reflect.AppendSlice on a slice of the same element size, pointer-ness, len and cap)",
		"models: math.Abs/Floor/Round/Max/Min exact; math.Exp uninterpreted with positivity, exp(0)=1, exp(x)>=1+x and pairwise monotonicity; fmt.* opaque (error texts are outside every claim); sort.* = the standard library's insertion sort branch (n<=12, stable n<=20); math/rand and the injected SeededValueGenerator = per (seed, index) a free variable in [0,1)",
		"map iteration follows insertion order unless the harness selects another order oracle",
		"SMT solver z3 5.1.0 (z3-new); a sample of obligations is re-decided by z3 4.8.12 and cvc5 1.0",
	}
	real, fp := false, false
	for _, hr := range results {
		if hr.Report.Mode == "REAL" {
			real = true
		} else {
			fp = true
		}
	}
	if real {
		out = append(out, "REAL mode: float64 arithmetic is interpreted over the reals (comparison outcomes, ties between inputs and exact formulas are covered; behaviour that exists only because an intermediate result is rounded is not); a division splits on a zero divisor and follows IEEE there; every counterexample is replayed on the native float build before it is reported")
	}
	if fp {
		out = append(out, "FP mode: IEEE-754 binary64, round-to-nearest-even, inputs finite with |x| <= 2^40")
	}
	matches, _ := filepath.Glob(filepath.Join(*flagVerif, "harness", prop, "*.go"))
	for _, m := range matches {
		b, _ := os.ReadFile(m)
		for _, l := range strings.Split(string(b), "\n") {
			if strings.HasPrefix(l, "//verif:assume ") {
				out = append(out, strings.TrimPrefix(l, "//verif:assume "))
			}
		}
	}
	return out
}
