package sym

import (
	"go/types"

	"gosym/smt"

	"golang.org/x/tools/go/ssa"
)

// If-conversion of small pure regions (DESIGN §3.5). An `If` on a symbolic condition whose
// region up to its immediate post-dominator is acyclic and contains only pure operations,
// loads, and stores of float/bool scalars (no call, allocation, panic) is executed on all
// arms at once: every block gets a guard term, stores become ite(guard, new, old) and Phi
// values ite-chains over the incoming edges. This is a case split moved into the term, so
// it is sound; -nomerge switches it off to cross-check a verdict.

type specAbort struct{}

type undoEntry struct {
	p   Pointer
	old Value
}

type specCtx struct {
	guard *smt.Term
	undo  []undoEntry
}

const (
	maxRegionInstrs = 160
	maxRegionBlocks = 14
)

func simpleBlock(b *ssa.BasicBlock) bool {
	for i, ins := range b.Instrs {
		switch x := ins.(type) {
		case *ssa.BinOp, *ssa.FieldAddr, *ssa.IndexAddr, *ssa.Field, *ssa.Index, *ssa.ChangeType, *ssa.Extract, *ssa.DebugRef, *ssa.Lookup, *ssa.Phi:
		case *ssa.UnOp:
		case *ssa.Convert:
		case *ssa.Store:
			switch u := x.Val.Type().Underlying().(type) {
			case *types.Basic:
				if u.Info()&(types.IsFloat|types.IsBoolean) == 0 {
					return false
				}
			default:
				return false
			}
		case *ssa.Jump, *ssa.If:
			if i != len(b.Instrs)-1 {
				return false
			}
		default:
			return false
		}
	}
	return true
}

type regionInfo struct {
	ok    bool
	join  *ssa.BasicBlock
	order []*ssa.BasicBlock // topological order of the region's blocks (without the head and the join)
}

type fnCFG struct {
	ipdom   map[*ssa.BasicBlock]*ssa.BasicBlock
	regions map[*ssa.BasicBlock]*regionInfo
}

// postDominators computes immediate post-dominators with the iterative set algorithm.
func postDominators(fn *ssa.Function) map[*ssa.BasicBlock]*ssa.BasicBlock {
	n := len(fn.Blocks)
	words := (n + 63) / 64
	full := make([]uint64, words)
	for i := 0; i < n; i++ {
		full[i/64] |= 1 << uint(i%64)
	}
	pd := make([][]uint64, n)
	for i, b := range fn.Blocks {
		pd[i] = make([]uint64, words)
		if len(b.Succs) == 0 {
			pd[i][i/64] |= 1 << uint(i%64)
		} else {
			copy(pd[i], full)
		}
	}
	changed := true
	for changed {
		changed = false
		for i := n - 1; i >= 0; i-- {
			b := fn.Blocks[i]
			if len(b.Succs) == 0 {
				continue
			}
			nw := make([]uint64, words)
			copy(nw, full)
			for _, s := range b.Succs {
				for w := range nw {
					nw[w] &= pd[s.Index][w]
				}
			}
			nw[i/64] |= 1 << uint(i%64)
			for w := range nw {
				if nw[w] != pd[i][w] {
					changed = true
				}
			}
			pd[i] = nw
		}
	}
	count := func(s []uint64) int {
		c := 0
		for _, w := range s {
			for ; w != 0; w &= w - 1 {
				c++
			}
		}
		return c
	}
	ip := map[*ssa.BasicBlock]*ssa.BasicBlock{}
	for i, b := range fn.Blocks {
		ci := count(pd[i])
		for j := 0; j < n; j++ {
			if j != i && pd[i][j/64]&(1<<uint(j%64)) != 0 && count(pd[j]) == ci-1 {
				ip[b] = fn.Blocks[j]
				break
			}
		}
	}
	return ip
}

func (in *Interp) cfg(fn *ssa.Function) *fnCFG {
	if c, ok := in.cfgs[fn]; ok {
		return c
	}
	c := &fnCFG{ipdom: postDominators(fn), regions: map[*ssa.BasicBlock]*regionInfo{}}
	if in.cfgs == nil {
		in.cfgs = map[*ssa.Function]*fnCFG{}
	}
	in.cfgs[fn] = c
	return c
}

func (in *Interp) region(b *ssa.BasicBlock) *regionInfo {
	c := in.cfg(b.Parent())
	if r, ok := c.regions[b]; ok {
		return r
	}
	r := &regionInfo{}
	c.regions[b] = r
	join := c.ipdom[b]
	if join == nil || join == b {
		return r
	}
	// collect blocks reachable from b before join; reject cycles
	state := map[*ssa.BasicBlock]int{} // 1 = on stack, 2 = done
	var post []*ssa.BasicBlock
	instrs := 0
	bad := false
	var dfs func(x *ssa.BasicBlock)
	dfs = func(x *ssa.BasicBlock) {
		if bad {
			return
		}
		if x == join {
			return
		}
		if x == b {
			bad = true // back edge to the head: a loop
			return
		}
		switch state[x] {
		case 1:
			bad = true
			return
		case 2:
			return
		}
		state[x] = 1
		if !simpleBlock(x) || len(x.Succs) == 0 {
			bad = true
			return
		}
		instrs += len(x.Instrs)
		if instrs > maxRegionInstrs || len(state) > maxRegionBlocks {
			bad = true
			return
		}
		for _, s := range x.Succs {
			dfs(s)
		}
		state[x] = 2
		post = append(post, x)
	}
	for _, s := range b.Succs {
		dfs(s)
	}
	if bad {
		return r
	}
	for i := len(post) - 1; i >= 0; i-- {
		r.order = append(r.order, post[i])
	}
	r.join = join
	r.ok = true
	return r
}

func (in *Interp) tryIfConvert(fr *frame, b *ssa.BasicBlock, c *smt.Term) (*ssa.BasicBlock, bool) {
	if in.NoMerge || in.spec != nil {
		return nil, false
	}
	if _, ok := in.P.known(c); ok {
		return nil, false
	}
	reg := in.region(b)
	if !reg.ok {
		return nil, false
	}
	ctx := in.C
	sp := &specCtx{}
	in.spec = sp
	type edge struct{ from, to *ssa.BasicBlock }
	edges := map[edge]*smt.Term{}
	addEdge := func(f, t *ssa.BasicBlock, g *smt.Term) {
		if old, ok := edges[edge{f, t}]; ok {
			g = ctx.Or(old, g)
		}
		edges[edge{f, t}] = g
	}
	ok := func() (ok bool) {
		defer func() {
			if r := recover(); r != nil {
				switch r.(type) {
				case specAbort, *GoPanic:
					ok = false
				default:
					in.spec = nil
					panic(r)
				}
			}
		}()
		addEdge(b, b.Succs[0], c)
		addEdge(b, b.Succs[1], ctx.Not(c))
		phiVals := func(blk *ssa.BasicBlock) ([]*ssa.Phi, []Value, *smt.Term, bool) {
			var phis []*ssa.Phi
			for _, ins := range blk.Instrs {
				if ph, isPhi := ins.(*ssa.Phi); isPhi {
					phis = append(phis, ph)
				} else {
					break
				}
			}
			guard := ctx.False
			vals := make([]Value, len(phis))
			first := true
			for i, p := range blk.Preds {
				g, has := edges[edge{p, blk}]
				if !has || (g.Op == smt.OConstB && !g.B) {
					continue
				}
				// a predecessor may appear twice in Preds (both arms of an If): use the first slot's edge once
				dup := false
				for j := 0; j < i; j++ {
					if blk.Preds[j] == p {
						dup = true
					}
				}
				if dup {
					return nil, nil, nil, false
				}
				guard = ctx.Or(guard, g)
				for k, ph := range phis {
					v := in.get(fr, ph.Edges[i])
					if first {
						vals[k] = v
					} else {
						m, mok := in.iteValue(g, v, vals[k])
						if !mok {
							return nil, nil, nil, false
						}
						vals[k] = m
					}
				}
				first = false
			}
			return phis, vals, guard, true
		}
		for _, blk := range reg.order {
			phis, vals, guard, pok := phiVals(blk)
			if !pok {
				return false
			}
			if guard.Op == smt.OConstB && !guard.B {
				continue // unreachable under the current (partly concrete) conditions
			}
			for k, ph := range phis {
				fr.env[ph] = vals[k]
			}
			sp.guard = guard
			for _, ins := range blk.Instrs[len(phis):] {
				switch x := ins.(type) {
				case *ssa.Jump:
					addEdge(blk, blk.Succs[0], guard)
				case *ssa.If:
					switch q := in.get(fr, x.Cond).(type) {
					case bool:
						if q {
							addEdge(blk, blk.Succs[0], guard)
						} else {
							addEdge(blk, blk.Succs[1], guard)
						}
					case *smt.Term:
						if k, known := in.P.known(q); known {
							if k {
								addEdge(blk, blk.Succs[0], guard)
							} else {
								addEdge(blk, blk.Succs[1], guard)
							}
						} else {
							addEdge(blk, blk.Succs[0], ctx.And(guard, q))
							addEdge(blk, blk.Succs[1], ctx.And(guard, ctx.Not(q)))
						}
					}
				default:
					in.step(fr, ins)
				}
			}
		}
		phis, vals, _, pok := phiVals(reg.join)
		if !pok {
			return false
		}
		for k, ph := range phis {
			fr.env[ph] = vals[k]
		}
		return true
	}()
	in.spec = nil
	if !ok {
		for i := len(sp.undo) - 1; i >= 0; i-- {
			u := sp.undo[i]
			in.rawStore(u.p, u.old)
		}
		return nil, false
	}
	in.P.Merged++
	fr.phisDone = true
	return reg.join, true
}

// iteValue merges two values under a condition; only float/bool leaves may differ.
func (in *Interp) iteValue(c *smt.Term, a, b Value) (Value, bool) {
	switch x := a.(type) {
	case float64:
		switch y := b.(type) {
		case float64:
			if x == y {
				return x, true
			}
			if nonFinite(x) || nonFinite(y) {
				return nil, false
			}
			return unwrapNum(in.C.Ite(c, in.C.Num(x), in.C.Num(y))), true
		case *smt.Term:
			if nonFinite(x) {
				return nil, false
			}
			return unwrapNum(in.C.Ite(c, in.C.Num(x), y)), true
		}
	case bool:
		switch y := b.(type) {
		case bool:
			if x == y {
				return x, true
			}
			return unwrapBool(in.C.Ite(c, in.C.Bool(x), in.C.Bool(y))), true
		case *smt.Term:
			return unwrapBool(in.C.Ite(c, in.C.Bool(x), y)), true
		}
	case *smt.Term:
		switch y := b.(type) {
		case float64:
			if nonFinite(y) {
				return nil, false
			}
			return unwrapNum(in.C.Ite(c, x, in.C.Num(y))), true
		case bool:
			return unwrapBool(in.C.Ite(c, x, in.C.Bool(y))), true
		case *smt.Term:
			if x.Sort != y.Sort {
				return nil, false
			}
			if x.Sort == smt.SBool {
				return unwrapBool(in.C.Ite(c, x, y)), true
			}
			return unwrapNum(in.C.Ite(c, x, y)), true
		}
	case int64:
		if y, ok := b.(int64); ok && x == y {
			return x, true
		}
	case string:
		if y, ok := b.(string); ok && x == y {
			return x, true
		}
	case Pointer:
		if _, isP := b.(Pointer); isP {
			if eq, ok := in.equal(a, b).(bool); ok && eq {
				return a, true
			}
		}
	case nil:
		if b == nil {
			return nil, true
		}
	}
	return nil, false
}

func (in *Interp) rawStore(p Pointer, v Value) {
	if len(p.Path) == 0 {
		p.O.V = v
		return
	}
	parent := loadPath(p.O.V, p.Path[:len(p.Path)-1])
	i := p.Path[len(p.Path)-1]
	switch x := parent.(type) {
	case *StructV:
		x.F[i] = v
	case *ArrayV:
		x.E[i] = v
	}
}

// guardedStore is used while a region is executed speculatively.
func (in *Interp) guardedStore(p Pointer, v Value) {
	sp := in.spec
	if p.O == nil {
		panic(specAbort{})
	}
	old := loadPath(p.O.V, p.Path)
	m, ok := in.iteValue(sp.guard, v, old)
	if !ok {
		panic(specAbort{})
	}
	sp.undo = append(sp.undo, undoEntry{p, old})
	in.rawStore(p, m)
}
