//go:build verif

//verif:dir logic/biases/criteria-omission
package criteria_omission

import (
	"math"

	"github.com/Azbesciak/RealDecisionMaker/lib/logic/limited-rationality/majority"
	"github.com/Azbesciak/RealDecisionMaker/lib/model"
	"github.com/Azbesciak/RealDecisionMaker/lib/model/criteria-ordering"
	"github.com/Azbesciak/RealDecisionMaker/lib/model/criteria-splitting"
	vh "github.com/Azbesciak/RealDecisionMaker/lib/zz_vh"
	rt "github.com/Azbesciak/RealDecisionMaker/lib/zz_verifrt"
)

//verif:bounds C15 HC15_count_and_front: CriteriaOmission.Apply with the majority listener (importance = weight): K<=3 (quick) / K<=4 (thorough) criteria, A=2 alternatives (one not considered), all five orderings (seeded ones with symbolic draws), ratio symbolic in [0,1], min in {0,1}, max in {absent, K-1, 1, 0}; a weight entry for an undeclared criterion may be present in the method parameters; count = clamp(floor(K x ratio), min, max), omitted = front of the ordering and reported, omitted are declared criteria, the ordering is a permutation of the declared criteria, remaining alternatives and parameters are restricted to the kept criteria
//verif:bounds C15 HC15_floor_fp: bit-precise: for n<=6 and every float ratio in [0,1], 0 <= int(floor(float64(n) x ratio)) <= n
//verif:outside C15: under float64 the product n x ratio is rounded before the floor is taken (the count is the floor of the rounded product); K beyond the bounds

func c15orderings() []criteria_ordering.CriteriaOrderingResolver {
	wbp := &criteria_ordering.WeakestByProbabilityCriteriaOrderingResolver{Generator: rt.Generators}
	return []criteria_ordering.CriteriaOrderingResolver{
		&criteria_ordering.WeakestCriteriaOrderingResolver{},
		&criteria_ordering.StrongestCriteriaOrderingResolver{},
		&criteria_ordering.RandomCriteriaOrderingResolver{Generator: rt.Generators},
		wbp,
		&criteria_ordering.StrongestByProbabilityCriteriaOrderingResolver{WeakestByProbability: wbp},
	}
}

//verif:harness HC15_count_and_front mode=REAL reach=none-omitted,some-omitted,undeclared-weight,weakest,strongest,random,weakestByProbability,strongestByProbability
func HC15_count_and_front() {
	K := rt.IntRange("K", 2, rt.Pick(3, 4))
	crit := vh.Criteria(K, "")
	known := vh.Alternatives("", vh.AltIds[:2], crit)
	w := vh.Weights("w.", crit, 0, 4)
	if rt.Bool("undeclared-weight") {
		w["zz_undeclared"] = rt.FloatIn("w.undeclared", 0, 4)
		rt.Reach("undeclared-weight")
	}
	methodParams := majority.MajorityHeuristicParams{Weights: w}
	current := vh.Params(known, []string{"a"}, crit, methodParams)
	var listener model.BiasListener = &majority.MajorityBiasListener{}
	ratio := rt.FloatIn("ratio", 0, 1)
	props := map[string]interface{}{"ratio": ratio, "randomSeed": float64(61)}
	minK, maxK := 0, math.MaxInt32
	if rt.Bool("min-one") {
		minK = 1
		props["min"] = float64(1)
	}
	switch rt.OneOf("max", "absent", "K-1", "one", "zero") {
	case "zero":
		rt.Assume(minK == 0)
		maxK = 0
		props["max"] = float64(0)
	case "K-1":
		maxK = K - 1
		props["max"] = float64(K - 1)
	case "one":
		maxK = 1
		props["max"] = float64(1)
	}
	ordering := rt.OneOf("ordering", "default", "strongest", "random", "weakestByProbability", "strongestByProbability")
	if ordering == "weakestByProbability" || ordering == "strongestByProbability" {
		// the probability weights divide by (weight + shift): with symbolic weights every draw comparison is a
		// rational inequality; here the weights come from concrete families (distinct / ties / below and above 1),
		// the draws stay symbolic (the exact first-pick characterisation with symbolic weights is HC15_probability)
		fam := rt.IntRange("weights-family", 0, 2)
		for i, c := range crit {
			w[c.Id] = [][]float64{{0.5, 2, 1.25, 3}, {1, 1, 0.25, 0.25}, {2, 3, 5, 4}}[fam][i]
		}
		methodParams = majority.MajorityHeuristicParams{Weights: w}
		current = vh.Params(known, []string{"a"}, crit, methodParams)
	}
	if ordering != "default" {
		props["ordering"] = ordering
		rt.Reach(ordering)
	} else {
		rt.Reach("weakest")
	}
	var bp model.BiasProps = props
	// expected count
	k := int(math.Floor(float64(K) * ratio))
	if k < minK {
		k = minK
	} else if k > maxK {
		k = maxK
	}
	rt.Assume(k < K) // a bias that removes every criterion is outside the domain
	bias := NewCriteriaOmission(c15orderings())
	snap := rt.Snapshot(current)
	origCrit := append(append(model.Criteria{}, crit...), model.Criterion{Id: "dropped-earlier", Type: model.Gain}) // the original state also has a criterion an earlier bias dropped
	original := vh.Params(vh.Alternatives("orig.", vh.AltIds[:2], origCrit), []string{"a"}, origCrit, majority.MajorityHeuristicParams{Weights: vh.Weights("orig.w.", origCrit, 0, 4)}) // differs from current: must not be used
	res := bias.Apply(original, current, &bp, &listener)
	rt.Assert("C15.received-state-untouched", rt.Same(snap, current))
	rep := res.Props.(CriteriaOmissionResult)
	rt.Assert("C15.count-is-clamped-floor", len(rep.OmittedCriteria) == k)
	if k == 0 {
		rt.Reach("none-omitted")
	} else {
		rt.Reach("some-omitted")
	}
	// the ordering (from the same resolver, same seed) is a permutation of the declared criteria
	name := ordering
	if name == "default" {
		name = ""
	}
	resolvers := c15orderings()
	resolver := criteria_ordering.FetchOrderingResolver(&resolvers, &criteria_ordering.CriteriaOrdering{Ordering: name})
	order := resolver.OrderCriteria(current, &bp, &listener)
	rt.Assert("C15.ordering-has-every-criterion", len(*order) == K)
	ids := *order.Names()
	for _, c := range crit {
		rt.Assert("C15.ordering-is-a-permutation", vh.Count(ids, c.Id) == 1)
	}
	declared := *crit.Names()
	var omitted []string
	for i := range rep.OmittedCriteria {
		o := rep.OmittedCriteria[i]
		omitted = append(omitted, o.Id)
		rt.Assert("C15.omitted-are-declared", vh.Contains(declared, o.Id))
		if i < len(*order) {
			rt.Assert("C15.omitted-are-front-of-ordering", o.Id == (*order)[i].Id)
		}
	}
	// everything that remains is restricted to the kept criteria
	kept := *res.DMP.Criteria.Names()
	rt.Assert("C15.kept-count", len(kept) == K-k)
	for _, c := range declared {
		rt.Assert("C15.kept-or-omitted", vh.Contains(kept, c) != vh.Contains(omitted, c))
	}
	for _, g := range [][]model.AlternativeWithCriteria{res.DMP.ConsideredAlternatives, res.DMP.NotConsideredAlternatives} {
		for _, a := range g {
			rt.Assert("C15.alternative-values-restricted", len(a.Criteria) == len(kept))
			orig := vh.FindAlt(known, a.Id)
			for _, c := range kept {
				v, ok := a.Criteria[c]
				rt.Assert("C15.kept-values-unchanged", ok && v == orig.Criteria[c])
			}
		}
	}
	rt.Assert("C15.split-unchanged", len(res.DMP.ConsideredAlternatives) == 1 && len(res.DMP.NotConsideredAlternatives) == 1)
	mp := res.DMP.MethodParameters.(majority.MajorityHeuristicParams)
	rt.Assert("C15.parameters-restricted", len(mp.Weights) == len(kept))
	for _, c := range kept {
		wv, ok := mp.Weights[c]
		rt.Assert("C15.kept-parameters-unchanged", ok && wv == w[c])
	}
	_ = criteria_splitting.CriteriaSplitCondition{}
}

//verif:harness HC15_floor_fp mode=FP reach=checked
func HC15_floor_fp() {
	n := rt.IntRange("n", 1, 6)
	ratio := rt.FloatIn("ratio", 0, 1)
	c := criteria_splitting.CriteriaSplitCondition{Ratio: ratio, Min: 0, Max: math.MaxInt32}
	crit := vh.Criteria(n, "gain")
	p := c.SplitCriteriaByOrdering(&crit)
	rt.Assert("C15.count-within-bounds", len(*p.Left) >= 0 && len(*p.Left) <= n && len(*p.Left)+len(*p.Right) == n)
	rt.Reach("checked")
}
