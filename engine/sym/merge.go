package sym

import (
	"go/types"

	"gosym/smt"

	"golang.org/x/tools/go/ssa"
)

// If-conversion of small pure regions (DESIGN §3.5): an `If` on a symbolic condition whose
// arms are straight-line blocks without calls, allocations or panics is executed on both
// arms; stores and Phi values are merged with ite(cond, ·, ·). This is a case split moved
// into the term, so it is sound; -nomerge switches it off to cross-check a verdict.

type specAbort struct{}

type undoEntry struct {
	p   Pointer
	old Value
}

type specCtx struct {
	guard *smt.Term
	undo  []undoEntry
}

const maxArmInstrs = 40

func simpleArm(b *ssa.BasicBlock) bool {
	if b == nil {
		return true
	}
	if len(b.Instrs) > maxArmInstrs {
		return false
	}
	for i, ins := range b.Instrs {
		switch x := ins.(type) {
		case *ssa.BinOp, *ssa.FieldAddr, *ssa.IndexAddr, *ssa.Field, *ssa.Index, *ssa.ChangeType, *ssa.Extract, *ssa.DebugRef, *ssa.Lookup, *ssa.Phi:
		case *ssa.UnOp:
		case *ssa.Convert:
		case *ssa.Store:
			switch u := x.Val.Type().Underlying().(type) {
			case *types.Basic:
				if u.Info()&(types.IsFloat|types.IsBoolean) == 0 {
					return false
				}
			default:
				return false
			}
		case *ssa.Jump:
			if i != len(b.Instrs)-1 {
				return false
			}
		default:
			return false
		}
	}
	_, ok := b.Instrs[len(b.Instrs)-1].(*ssa.Jump)
	return ok
}

func (in *Interp) tryIfConvert(fr *frame, b *ssa.BasicBlock, c *smt.Term) (*ssa.BasicBlock, bool) {
	if in.NoMerge || in.spec != nil {
		return nil, false
	}
	if _, ok := in.P.known(c); ok {
		return nil, false
	}
	T, F := b.Succs[0], b.Succs[1]
	var armT, armF, join *ssa.BasicBlock
	single := func(x *ssa.BasicBlock) bool { return len(x.Preds) == 1 && x.Preds[0] == b }
	endsIn := func(x, target *ssa.BasicBlock) bool {
		return len(x.Succs) == 1 && x.Succs[0] == target
	}
	switch {
	case T != F && single(T) && single(F) && len(T.Succs) == 1 && len(F.Succs) == 1 && T.Succs[0] == F.Succs[0]:
		armT, armF, join = T, F, T.Succs[0]
	case T != F && single(T) && endsIn(T, F):
		armT, join = T, F
	case T != F && single(F) && endsIn(F, T):
		armF, join = F, T
	default:
		return nil, false
	}
	if join == b || !simpleArm(armT) || !simpleArm(armF) {
		return nil, false
	}
	sp := &specCtx{}
	in.spec = sp
	ok := func() (ok bool) {
		defer func() {
			if r := recover(); r != nil {
				switch r.(type) {
				case specAbort, *GoPanic:
					ok = false
				default:
					in.spec = nil
					panic(r)
				}
			}
		}()
		runArm := func(arm *ssa.BasicBlock, guard *smt.Term) {
			if arm == nil {
				return
			}
			sp.guard = guard
			for _, ins := range arm.Instrs {
				switch x := ins.(type) {
				case *ssa.Jump:
				case *ssa.Phi:
					fr.env[x] = in.get(fr, x.Edges[0])
				default:
					in.step(fr, ins)
				}
			}
		}
		runArm(armT, c)
		runArm(armF, in.C.Not(c))
		// Phi nodes of the join block
		predT, predF := armT, armF
		if predT == nil {
			predT = b
		}
		if predF == nil {
			predF = b
		}
		it, iff := -1, -1
		for i, p := range join.Preds {
			if p == predT && it < 0 {
				it = i
			} else if p == predF {
				iff = i
			}
		}
		if predT == predF {
			return false
		}
		var phis []*ssa.Phi
		var vals []Value
		for _, ins := range join.Instrs {
			ph, isPhi := ins.(*ssa.Phi)
			if !isPhi {
				break
			}
			vt, vf := in.get(fr, ph.Edges[it]), in.get(fr, ph.Edges[iff])
			m, mok := in.iteValue(c, vt, vf)
			if !mok {
				return false
			}
			phis = append(phis, ph)
			vals = append(vals, m)
		}
		for i, ph := range phis {
			fr.env[ph] = vals[i]
		}
		return true
	}()
	in.spec = nil
	if !ok {
		for i := len(sp.undo) - 1; i >= 0; i-- {
			u := sp.undo[i]
			in.rawStore(u.p, u.old)
		}
		return nil, false
	}
	in.P.Merged++
	fr.phisDone = true
	// make the predecessor look like one of the arms so that loop accounting still works
	fr.prev = b
	return join, true
}

// iteValue merges two values under a condition; only float/bool leaves may differ.
func (in *Interp) iteValue(c *smt.Term, a, b Value) (Value, bool) {
	switch x := a.(type) {
	case float64:
		switch y := b.(type) {
		case float64:
			if x == y {
				return x, true
			}
			if nonFinite(x) || nonFinite(y) {
				return nil, false
			}
			return unwrapNum(in.C.Ite(c, in.C.Num(x), in.C.Num(y))), true
		case *smt.Term:
			if nonFinite(x) {
				return nil, false
			}
			return unwrapNum(in.C.Ite(c, in.C.Num(x), y)), true
		}
	case bool:
		switch y := b.(type) {
		case bool:
			if x == y {
				return x, true
			}
			return unwrapBool(in.C.Ite(c, in.C.Bool(x), in.C.Bool(y))), true
		case *smt.Term:
			return unwrapBool(in.C.Ite(c, in.C.Bool(x), y)), true
		}
	case *smt.Term:
		switch y := b.(type) {
		case float64:
			if nonFinite(y) {
				return nil, false
			}
			return unwrapNum(in.C.Ite(c, x, in.C.Num(y))), true
		case bool:
			return unwrapBool(in.C.Ite(c, x, in.C.Bool(y))), true
		case *smt.Term:
			if x.Sort != y.Sort {
				return nil, false
			}
			if x.Sort == smt.SBool {
				return unwrapBool(in.C.Ite(c, x, y)), true
			}
			return unwrapNum(in.C.Ite(c, x, y)), true
		}
	case int64:
		if y, ok := b.(int64); ok && x == y {
			return x, true
		}
	case string:
		if y, ok := b.(string); ok && x == y {
			return x, true
		}
	case Pointer:
		if eq, ok := in.equal(a, b).(bool); ok && eq {
			return a, true
		}
	}
	return nil, false
}

func (in *Interp) rawStore(p Pointer, v Value) {
	if len(p.Path) == 0 {
		p.O.V = v
		return
	}
	parent := loadPath(p.O.V, p.Path[:len(p.Path)-1])
	i := p.Path[len(p.Path)-1]
	switch x := parent.(type) {
	case *StructV:
		x.F[i] = v
	case *ArrayV:
		x.E[i] = v
	}
}

// guardedStore is used while an arm is executed speculatively.
func (in *Interp) guardedStore(p Pointer, v Value) {
	sp := in.spec
	if p.O == nil {
		panic(specAbort{})
	}
	old := loadPath(p.O.V, p.Path)
	m, ok := in.iteValue(sp.guard, v, old)
	if !ok {
		panic(specAbort{})
	}
	sp.undo = append(sp.undo, undoEntry{p, old})
	in.rawStore(p, m)
}
