// Package sym is a shape-concrete / value-symbolic interpreter for go/ssa.
// float64 and bool values may be SMT terms; everything else is concrete per path.
package sym

import (
	"fmt"
	"go/types"
	"sort"
	"strings"

	"gosym/smt"

	"golang.org/x/tools/go/ssa"
)

// Value is one of:
//   bool, int64 (every integer kind, wrapped by type), float64, string   concrete scalars
//   *smt.Term                                                          symbolic float64 or bool
//   Pointer, Slice, *MapV, Iface, *StructV, *ArrayV, Tuple
//   *ssa.Function, *Closure, *ssa.Builtin, *Native, nil (nil func)
type Value interface{}

// Obj is an addressable allocation (the target of Alloc, a global, the backing array of a slice).
type Obj struct {
	ID    int
	V     Value // the stored value (StructV/ArrayV are mutated in place)
	Epoch int
	Owner int // 0 = none, 1 = request-owned (set by verifrt.Own)
	Label string
}

type Pointer struct {
	O    *Obj
	Path []int // field / element indices from O.V
}

func (p Pointer) IsNil() bool { return p.O == nil }

type StructV struct {
	F []Value
}

type ArrayV struct {
	E []Value
}

type Slice struct {
	Arr           *Obj // V is *ArrayV; nil for nil slice
	Off, Len, Cap int
}

type MapV struct {
	ID   int
	Keys []Value // insertion order; concrete comparable keys
	M    map[interface{}]Value
	Epoch int
	Owner int
}

type Iface struct {
	T types.Type // dynamic type, nil for nil interface
	V Value
}

type Tuple []Value

type Closure struct {
	Fn   *ssa.Function
	Bind []Value
}

// Native is an engine-provided function value (e.g. the nondet generator returned by verifrt.Generators).
type Native struct {
	Name string
	Fn   func(in *Interp, args []Value) Value
}

// Opaque models values whose content the engine does not interpret (formatted strings, errors).
type Opaque struct {
	Desc string
}

func mapKey(v Value) interface{} {
	switch k := v.(type) {
	case string, int64, bool, float64:
		return k
	case Iface:
		if k.T == nil {
			return nil
		}
		return mapKey(k.V)
	case *StructV:
		parts := make([]string, len(k.F))
		for i, f := range k.F {
			parts[i] = fmt.Sprint(mapKey(f))
		}
		return "struct{" + strings.Join(parts, "\x00") + "}"
	}
	panic(Unsupported{fmt.Sprintf("map key of kind %T", v)})
}

func (m *MapV) Get(k Value) (Value, bool) {
	if m == nil {
		return nil, false
	}
	v, ok := m.M[mapKey(k)]
	return v, ok
}

func (m *MapV) Set(k, v Value) {
	mk := mapKey(k)
	if _, ok := m.M[mk]; !ok {
		m.Keys = append(m.Keys, k)
	}
	m.M[mk] = v
}

func (m *MapV) Delete(k Value) {
	mk := mapKey(k)
	if _, ok := m.M[mk]; !ok {
		return
	}
	delete(m.M, mk)
	for i, x := range m.Keys {
		if mapKey(x) == mk {
			m.Keys = append(append([]Value{}, m.Keys[:i]...), m.Keys[i+1:]...)
			break
		}
	}
}

// SortedKeys returns the keys in a canonical (sorted) order.
func (m *MapV) SortedKeys() []Value {
	ks := append([]Value{}, m.Keys...)
	sort.SliceStable(ks, func(i, j int) bool { return fmt.Sprint(mapKey(ks[i])) < fmt.Sprint(mapKey(ks[j])) })
	return ks
}

// clone copies value-typed aggregates (structs, arrays); reference-like values are shared.
func clone(v Value) Value {
	switch x := v.(type) {
	case *StructV:
		n := &StructV{F: make([]Value, len(x.F))}
		for i, f := range x.F {
			n.F[i] = clone(f)
		}
		return n
	case *ArrayV:
		n := &ArrayV{E: make([]Value, len(x.E))}
		for i, f := range x.E {
			n.E[i] = clone(f)
		}
		return n
	case Tuple:
		n := make(Tuple, len(x))
		for i, f := range x {
			n[i] = clone(f)
		}
		return n
	case Iface:
		return Iface{T: x.T, V: clone(x.V)}
	}
	return v
}

type Unsupported struct{ What string }

func (u Unsupported) Error() string { return "unsupported: " + u.What }

// zero builds the zero value of a type.
func (in *Interp) zero(t types.Type) Value {
	switch u := t.Underlying().(type) {
	case *types.Basic:
		switch {
		case u.Info()&types.IsBoolean != 0:
			return false
		case u.Info()&types.IsInteger != 0:
			return int64(0)
		case u.Info()&types.IsFloat != 0:
			return float64(0)
		case u.Info()&types.IsString != 0:
			return ""
		case u.Kind() == types.UnsafePointer:
			return Pointer{}
		case u.Kind() == types.UntypedNil:
			return nil
		}
	case *types.Pointer:
		return Pointer{}
	case *types.Slice:
		return Slice{}
	case *types.Map:
		return (*MapV)(nil)
	case *types.Signature:
		return nil
	case *types.Interface:
		return Iface{}
	case *types.Struct:
		s := &StructV{F: make([]Value, u.NumFields())}
		for i := range s.F {
			s.F[i] = in.zero(u.Field(i).Type())
		}
		return s
	case *types.Array:
		a := &ArrayV{E: make([]Value, int(u.Len()))}
		for i := range a.E {
			a.E[i] = in.zero(u.Elem())
		}
		return a
	case *types.Tuple:
		tu := make(Tuple, u.Len())
		for i := range tu {
			tu[i] = in.zero(u.At(i).Type())
		}
		return tu
	case *types.Chan:
		return nil
	}
	panic(Unsupported{"zero value of " + t.String()})
}

func isSym(v Value) bool {
	_, ok := v.(*smt.Term)
	return ok
}

// Describe renders a value for evidence samples and diagnostics.
func Describe(v Value, depth int) string {
	if depth > 14 {
		return "…"
	}
	switch x := v.(type) {
	case nil:
		return "nil"
	case bool, int64, float64:
		return fmt.Sprint(x)
	case string:
		return fmt.Sprintf("%q", x)
	case *smt.Term:
		s := x.String()
		if len(s) > 80 {
			s = s[:80] + "…"
		}
		return s
	case Pointer:
		if x.O == nil {
			return "nil"
		}
		return "&" + Describe(loadPath(x.O.V, x.Path), depth+1)
	case *StructV:
		p := make([]string, len(x.F))
		for i, f := range x.F {
			p[i] = Describe(f, depth+1)
		}
		return "{" + strings.Join(p, " ") + "}"
	case *ArrayV:
		p := make([]string, len(x.E))
		for i, f := range x.E {
			p[i] = Describe(f, depth+1)
		}
		return "[" + strings.Join(p, " ") + "]"
	case Slice:
		if x.Arr == nil {
			return "[]"
		}
		arr := x.Arr.V.(*ArrayV)
		p := make([]string, x.Len)
		for i := 0; i < x.Len; i++ {
			p[i] = Describe(arr.E[x.Off+i], depth+1)
		}
		return "[" + strings.Join(p, " ") + "]"
	case *MapV:
		if x == nil {
			return "map[]"
		}
		var p []string
		for _, k := range x.SortedKeys() {
			p = append(p, fmt.Sprint(mapKey(k))+":"+Describe(x.M[mapKey(k)], depth+1))
		}
		return "map[" + strings.Join(p, " ") + "]"
	case Iface:
		if x.T == nil {
			return "nil"
		}
		return Describe(x.V, depth+1)
	case Tuple:
		p := make([]string, len(x))
		for i, f := range x {
			p[i] = Describe(f, depth+1)
		}
		return "(" + strings.Join(p, ", ") + ")"
	case *ssa.Function:
		return "func " + x.Name()
	case *Closure:
		return "closure " + x.Fn.Name()
	case *Native:
		return "native " + x.Name
	case *Opaque:
		return "<" + x.Desc + ">"
	}
	return fmt.Sprintf("%T", v)
}

func loadPath(v Value, path []int) Value {
	for _, i := range path {
		switch x := v.(type) {
		case *StructV:
			v = x.F[i]
		case *ArrayV:
			v = x.E[i]
		default:
			panic(fmt.Sprintf("loadPath through %T", v))
		}
	}
	return v
}
