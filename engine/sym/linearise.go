package sym

import (
	"fmt"
	"sort"

	"gosym/smt"
)

// Counterexample search by partial concretisation.
//
// A negated obligation with products of symbolic values (capacity x value, weight x value, ...) is
// nonlinear real arithmetic; when the property is broken the solver often answers "unknown"
// instead of producing the model. This fallback fixes a covering set of the variables of every
// symbolic product (and every symbolic divisor) to generic dyadic values inside their declared
// ranges, which makes the query linear, and asks again. A model of the restricted query is a
// model of the original one, so "sat" is a genuine counterexample (it is replayed natively like
// every other); failing to find one leaves the obligation undecided - the fallback can only
// turn "unknown" into "violated", never into "holds".

type varSet map[int]*smt.Term

func (p *PathState) nonlinearCover(terms []*smt.Term) []*smt.Term {
	memo := map[int]varSet{}
	var varsOf func(t *smt.Term) varSet
	type prod struct{ a, b varSet }
	var prods []prod
	seen := map[int]bool{}
	varsOf = func(t *smt.Term) varSet {
		if s, ok := memo[t.ID]; ok {
			return s
		}
		s := varSet{}
		if t.Op == smt.OVar {
			if t.Sort == smt.SNum {
				s[t.ID] = t
			}
		} else {
			for _, a := range t.Args {
				for k, v := range varsOf(a) {
					s[k] = v
				}
			}
		}
		memo[t.ID] = s
		return s
	}
	var walk func(t *smt.Term)
	walk = func(t *smt.Term) {
		if seen[t.ID] {
			return
		}
		seen[t.ID] = true
		for _, a := range t.Args {
			walk(a)
		}
		switch t.Op {
		case smt.OMul:
			a, b := varsOf(t.Args[0]), varsOf(t.Args[1])
			if len(a) > 0 && len(b) > 0 {
				prods = append(prods, prod{a, b})
			}
		case smt.ODiv:
			b := varsOf(t.Args[1])
			if len(b) > 0 {
				prods = append(prods, prod{b, b})
			}
		}
	}
	for _, t := range terms {
		walk(t)
	}
	fixed := varSet{}
	open := func(s varSet) int {
		n := 0
		for k := range s {
			if _, ok := fixed[k]; !ok {
				n++
			}
		}
		return n
	}
	for _, pr := range prods {
		na, nb := open(pr.a), open(pr.b)
		if na == 0 || nb == 0 {
			continue
		}
		side := pr.a
		if nb < na {
			side = pr.b
		}
		for k, v := range side {
			fixed[k] = v
		}
	}
	out := make([]*smt.Term, 0, len(fixed))
	for _, v := range fixed {
		out = append(out, v)
	}
	sort.Slice(out, func(i, j int) bool { return out[i].ID < out[j].ID })
	return out
}

// declaredBounds reads lo <= v and v <= hi facts with constant bounds from the path condition.
func (p *PathState) declaredBounds() (lo, hi map[int]float64) {
	lo, hi = map[int]float64{}, map[int]float64{}
	var visit func(t *smt.Term)
	visit = func(t *smt.Term) {
		switch t.Op {
		case smt.OAnd:
			for _, a := range t.Args {
				visit(a)
			}
		case smt.OLe, smt.OLt:
			a, b := t.Args[0], t.Args[1]
			if a.Op == smt.OConstN && a.R == nil && b.Op == smt.OVar {
				if cur, ok := lo[b.ID]; !ok || a.F > cur {
					lo[b.ID] = a.F
				}
			}
			if b.Op == smt.OConstN && b.R == nil && a.Op == smt.OVar {
				if cur, ok := hi[a.ID]; !ok || b.F < cur {
					hi[a.ID] = b.F
				}
			}
		}
	}
	for _, t := range p.PC {
		visit(t)
	}
	return
}

// concretiseSearch returns (neg && fixings, true) when a counterexample exists with the cover fixed.
func (p *PathState) concretiseSearch(in *Interp, id string, neg *smt.Term) (*smt.Term, bool) {
	c := in.C
	if c.Mode != smt.REAL {
		return nil, false
	}
	cover := p.nonlinearCover(append(append([]*smt.Term{}, p.PC...), neg))
	if len(cover) == 0 {
		return nil, false
	}
	lo, hi := p.declaredBounds()
	for k := 0; k < 6; k++ {
		conj := neg
		for i, v := range cover {
			q := float64((i*37+k*11+5)%61+1) / 64 // generic dyadic fraction in (0,1)
			var val float64
			l, okl := lo[v.ID]
			h, okh := hi[v.ID]
			switch {
			case okl && okh:
				val = l + (h-l)*q
			case okl:
				val = l + 8*q
			case okh:
				val = h - 8*q
			default:
				val = 16*q - 4
			}
			conj = c.And(conj, c.Eq(v, c.Num(val)))
		}
		if in.S.Check(10000, conj) == smt.Sat {
			p.Notes = append(p.Notes, fmt.Sprintf("obligation %s: undecided as stated; counterexample found with %d variables of the symbolic products fixed to generic values (attempt %d)", id, len(cover), k))
			return conj, true
		}
	}
	return nil, false
}
