//go:build verif

//verif:dir logic/limited-rationality/satisfaction-levels
package satisfaction_levels

import (
	rt "github.com/Azbesciak/RealDecisionMaker/lib/zz_verifrt"
)

//verif:harness HC20_series_progress_fp mode=FP reach=progress,ended-without-progress ob_timeout_ms=120000
func HC20_series_progress_fp() {
	// every coefficient the validators accept (0 < c < 1) and every level that still has a successor:
	// one real Next() either changes the level or ends the series - so no request can loop forever
	var src *IdealCoefficientSatisfactionLevelsSource
	inc := false
	switch rt.OneOf("series", "additive", "subtractive", "inc-multiplied", "dec-multiplied") {
	case "additive":
		src, inc = &IdealAdditiveCoefficientSatisfaction, true
	case "subtractive":
		src = &IdealSubtrCoefficientSatisfaction
	case "inc-multiplied":
		src, inc = &IdealIncreasingMulCoefficientSatisfaction, true
	default:
		src = &IdealDecreasingMulCoefficientSatisfaction
	}
	s := src.BlankParams().(*IdealCoefficientSatisfactionLevels)
	c := rt.FloatIn("coefficient", 0, 1)
	rt.Assume(c > 0)
	rt.Assume(c < 1)
	if src == &IdealIncreasingMulCoefficientSatisfaction || src == &IdealDecreasingMulCoefficientSatisfaction {
		// symbolic x symbolic float products are out of the bit-blaster's reach: a finite set of coefficients incl. tiny ones
		c = []float64{1e-300, 1e-17, 1e-9, 0.001, 0.5, 0.999, 1 - 1e-16}[rt.IntRange("coefficient-index", 0, 6)]
	}
	s.Coefficient, s.MinValue, s.MaxValue = c, 0.0009765625, 1
	if inc {
		s.MinValue = 0
	}
	r := rt.FloatIn("level", 0, 1)
	s.currentValue = r
	rt.Assume(s.HasNext())
	s.Next()
	if rt.Branch(s.currentValue != r) {
		rt.Reach("progress")
		// the update rules are monotone in the level, so a sequence of changing levels is monotone and, over the
		// finitely many float64 values in [0,1], ends; the direction itself is C14's subject (coefficient >= 0.001)
		rt.Assert("C20.level-stays-in-unit-interval", rt.And(s.currentValue >= 0, s.currentValue <= 1))
	} else {
		rt.Reach("ended-without-progress")
		rt.Assert("C20.series-without-progress-ends", !s.HasNext())
	}
}
