//go:build verif

//verif:dir zz_pipeline
package zz_pipeline

// The pipeline harness library ("P" in DESIGN.md): requests shaped the way encoding/json
// delivers them, pushed through the real MakeDecision with the registries extracted from
// httpClient/main.go (zz_registry_gen.go, regenerated on every run). Methods and biases are
// wrapped in recording decorators so that intermediate states can be observed without
// touching /repo.

import (
	"github.com/Azbesciak/RealDecisionMaker/lib/model"
	vh "github.com/Azbesciak/RealDecisionMaker/lib/zz_vh"
	rt "github.com/Azbesciak/RealDecisionMaker/lib/zz_verifrt"
)

var Methods = []string{"weightedSum", "owa", "choquetIntegral", "electreIII", "majorityHeuristic", "aspectEliminationHeuristic", "satisfactionHeuristic"}
var BiasNames = []string{"criteriaOmission", "preferenceReversal", "fatigue", "criteriaConcealment", "criteriaMixing", "anchoring"}

// BiasVariants are the bias configurations enumerated by the composition harnesses: the six
// biases with default options plus anchoring with the new-criterion applier.
var BiasVariants = []string{"criteriaOmission", "preferenceReversal", "fatigue", "criteriaConcealment", "criteriaMixing", "anchoring", "anchoring/newCriterion"}

func BiasNameOf(variant string) string {
	if variant == "anchoring/newCriterion" {
		return "anchoring"
	}
	return variant
}

// AddsCriterion tells whether a bias variant appends a criterion.
func AddsCriterion(variant string) bool {
	return variant == "criteriaConcealment" || variant == "criteriaMixing" || variant == "anchoring/newCriterion"
}

// ---------------------------------------------------------------------------------------
// Fake gin context for the extracted handler

type Response struct {
	Code int
	Body interface{}
}

type FakeContext struct {
	BindErr error
	Request *model.DecisionMaker
	Calls   []Response
	bound   *model.DecisionMaker
}

// lastRequest is the value the handler bound the request into (what an error response must echo).
func (c *FakeContext) lastRequest() *model.DecisionMaker { return c.bound }

func (c *FakeContext) ShouldBindJSON(obj interface{}) error {
	c.bound = obj.(*model.DecisionMaker)
	if c.BindErr != nil {
		return c.BindErr
	}
	*(obj.(*model.DecisionMaker)) = *c.Request
	return nil
}

func (c *FakeContext) JSON(code int, obj interface{}) {
	c.Calls = append(c.Calls, Response{code, obj})
}

// ---------------------------------------------------------------------------------------
// Recording decorators

type BiasStep struct {
	Name     string
	Original *model.DecisionMakingParams
	Before   *model.DecisionMakingParams
	After    *model.DecisionMakingParams
	Props    model.BiasProps
	BeforeSnap, AfterSnap, PropsSnap rt.Snap
	Panicked bool
}

type Recorder struct {
	Steps     []BiasStep
	Evaluated *model.DecisionMakingParams
	EvalSnap  rt.Snap
	Parsed    interface{}
	EvaluateReturned bool
}

type recBias struct {
	inner model.Bias
	rec   *Recorder
}

func (b *recBias) Identifier() string { return b.inner.Identifier() }

func (b *recBias) Apply(original, current *model.DecisionMakingParams, props *model.BiasProps, listener *model.BiasListener) *model.BiasedResult {
	step := BiasStep{Name: b.inner.Identifier(), Original: original, Before: current, BeforeSnap: rt.Snapshot(current), Panicked: true}
	b.rec.Steps = append(b.rec.Steps, step)
	idx := len(b.rec.Steps) - 1
	res := b.inner.Apply(original, current, props, listener)
	s := &b.rec.Steps[idx]
	s.Panicked = false
	s.After = res.DMP
	s.Props = res.Props
	s.AfterSnap = rt.Snapshot(res.DMP)
	s.PropsSnap = rt.Snapshot(res.Props)
	return res
}

type recFunc struct {
	inner model.PreferenceFunction
	rec   *Recorder
}

func (f *recFunc) Identifier() string            { return f.inner.Identifier() }
func (f *recFunc) MethodParameters() interface{} { return f.inner.MethodParameters() }
func (f *recFunc) ParseParams(dm *model.DecisionMaker) interface{} {
	p := f.inner.ParseParams(dm)
	f.rec.Parsed = p
	return p
}
func (f *recFunc) Evaluate(dmp *model.DecisionMakingParams) *model.AlternativesRanking {
	f.rec.Evaluated = dmp
	f.rec.EvalSnap = rt.Snapshot(dmp)
	r := f.inner.Evaluate(dmp)
	f.rec.EvaluateReturned = true
	return r
}

// Registries returns the service's registries with every method and bias wrapped.
func Registries(rec *Recorder) (model.PreferenceFunctions, model.BiasListeners, *model.BiasMap) {
	fs := make([]model.PreferenceFunction, len(funcs.Functions))
	for i, f := range funcs.Functions {
		fs[i] = &recFunc{inner: f, rec: rec}
	}
	bm := make(model.BiasMap, len(biases))
	for _, n := range BiasNames {
		if b, ok := biases[n]; ok {
			bm[n] = &recBias{inner: b, rec: rec}
		}
	}
	return model.PreferenceFunctions{Functions: fs}, biasListeners, &bm
}

type Outcome struct {
	Choice   *model.DecisionMakerChoice
	Panicked bool
	PanicVal interface{}
	Rec      *Recorder
}

// Decide runs the real MakeDecision on the request with recording registries.
func Decide(dm *model.DecisionMaker) *Outcome {
	rec := &Recorder{}
	out := &Outcome{Rec: rec}
	fs, ls, bm := Registries(rec)
	func() {
		defer func() {
			if e := recover(); e != nil {
				out.Panicked = true
				out.PanicVal = e
			}
		}()
		out.Choice = dm.MakeDecision(fs, ls, bm, rt.Generators)
	}()
	return out
}

// ---------------------------------------------------------------------------------------
// JSON-shaped request builders

// appendOneByOne reproduces the capacities encoding/json leaves (it grows by one element at a time).
func jsonAlternatives(alts []model.AlternativeWithCriteria) []model.AlternativeWithCriteria {
	var out []model.AlternativeWithCriteria
	for _, a := range alts {
		out = append(out, a)
	}
	return out
}

func jsonStrings(ss []string) []string {
	var out []string
	for _, s := range ss {
		out = append(out, s)
	}
	return out
}

func jsonCriteria(cs model.Criteria) model.Criteria {
	var out model.Criteria
	for _, c := range cs {
		out = append(out, c)
	}
	return out
}

type ReqOpts struct {
	Method      string
	A, K        int
	Considered  int    // number of considered alternatives (<= A)
	CritTypes   string // "choice" (first criterion gain/cost, rest alternate), "gain"
	CurrentChoice string // for heuristics: "", or an alternative id
	Levels      int    // explicit levels for the threshold heuristics
	Policy      string
	ElectreThresholds string // "none", "qp", "qpv"
	Prefix      string
	Values      int  // 0: every criterion value symbolic; 1, 2: concrete value families (see concreteValues)
	ConcreteParams bool // method weights / thresholds concrete instead of symbolic
}

// concreteValues: family 1 has pairwise distinct values; family 2 has ties between alternatives,
// a criterion on which all alternatives coincide (degenerate range) and negative values.
func concreteValues(family, alt, crit int) float64 {
	f1 := [][]float64{{1, 5, 2, 7}, {2, 3, 6, 1}, {4, 4.5, 3, 2}, {3, 1, 5, 6}, {6, 2, 1, 3}}
	f2 := [][]float64{{1, 2, -1, 0}, {1, 2, 3, 0}, {1, -3, 3, 0}, {1, 2, -1, 5}, {1, 0, 0, 0}}
	if family == 2 {
		return f2[alt][crit]
	}
	return f1[alt][crit]
}

func Criteria(o ReqOpts) model.Criteria {
	if o.Method == "choquetIntegral" || o.CritTypes == "gain" {
		return vh.Criteria(o.K, "gain")
	}
	crit := vh.Criteria(1, "")
	for i := 1; i < o.K; i++ {
		t := model.Cost
		if i%2 == 0 {
			t = model.Gain
		}
		crit = append(crit, model.Criterion{Id: vh.CritIds[i], Type: t})
	}
	return crit
}

func key(ids []string) string {
	s := ""
	for i, x := range ids {
		if i > 0 {
			s += ","
		}
		s += x
	}
	return s
}

// MethodParams builds the JSON-shaped methodParameters of a method with free (symbolic) numbers.
func MethodParams(o ReqOpts, crit model.Criteria) map[string]interface{} {
	px := o.Prefix
	num := func(name string, lo, hi, concrete float64) float64 {
		if o.ConcreteParams {
			return concrete
		}
		return rt.FloatIn(name, lo, hi)
	}
	weights := func(lo, hi float64) map[string]interface{} {
		w := map[string]interface{}{}
		for i, c := range crit {
			w[c.Id] = num(px+"w."+c.Id, lo, hi, []float64{0.5, 0.25, 0.75, 0.125, 1}[i])
		}
		return w
	}
	switch o.Method {
	case "weightedSum", "owa":
		return map[string]interface{}{"weights": weights(0, 4)}
	case "choquetIntegral":
		w := map[string]interface{}{}
		n := len(crit)
		for mask := 1; mask < (1 << uint(n)); mask++ {
			var ids []string
			for j := 0; j < n; j++ {
				if mask&(1<<uint(j)) != 0 {
					ids = append(ids, crit[j].Id)
				}
			}
			w[key(ids)] = num(px+"cap."+key(ids), 0, 1, float64(len(ids))/float64(n))
		}
		return map[string]interface{}{"weights": w}
	case "electreIII":
		ec := map[string]interface{}{}
		for _, c := range crit {
			e := map[string]interface{}{"k": num(px+"k."+c.Id, 0.125, 4, 1)}
			if o.ElectreThresholds == "qp" || o.ElectreThresholds == "qpv" {
				q := num(px+"q."+c.Id, 0.125, 8, 0.5)
				p := num(px+"p."+c.Id, 0.125, 8, 1.5)
				rt.Assume(q < p)
				e["q"] = map[string]interface{}{"b": q}
				e["p"] = map[string]interface{}{"b": p}
				if o.ElectreThresholds == "qpv" {
					v := num(px+"v."+c.Id, 0.125, 16, 3)
					rt.Assume(p < v)
					e["v"] = map[string]interface{}{"b": v}
				}
			}
			ec[c.Id] = e
		}
		return map[string]interface{}{"electreCriteria": ec}
	case "majorityHeuristic":
		m := map[string]interface{}{"weights": weights(0, 4), "randomSeed": float64(11)}
		if o.Policy != "" {
			m["drawResolution"] = o.Policy
		}
		if o.CurrentChoice != "" {
			m["currentChoice"] = o.CurrentChoice
		}
		return m
	case "aspectEliminationHeuristic":
		return map[string]interface{}{"function": "thresholds", "params": vh.JSONThresholdsOpt(px+"t", o.Levels, crit, o.ConcreteParams), "weights": weights(0, 4), "randomSeed": float64(12)}
	case "satisfactionHeuristic":
		m := map[string]interface{}{"function": "thresholds", "params": vh.JSONThresholdsOpt(px+"t", o.Levels, crit, o.ConcreteParams), "randomSeed": float64(13)}
		if o.CurrentChoice != "" {
			m["currentChoice"] = o.CurrentChoice
		}
		return m
	}
	panic("unknown method " + o.Method)
}

// Request builds a decision request for the given options; every number is symbolic.
func Request(o ReqOpts) *model.DecisionMaker {
	crit := Criteria(o)
	if len(crit) >= 2 {
		// criteria are declared out of id order (c2, c1, ...), as choseToMake lists alternatives out of id order:
		// code that sorts a shared slice or map key in place only shows on unsorted input
		crit[0], crit[1] = crit[1], crit[0]
	}
	known := vh.Alternatives(o.Prefix, vh.AltIds[:o.A], crit)
	if o.Values != 0 {
		for i := range known {
			w := make(model.Weights, len(crit))
			for j, c := range crit {
				w[c.Id] = concreteValues(o.Values, i, j)
			}
			known[i].Criteria = w
		}
	}
	var chose []string
	for i := o.Considered - 1; i >= 0; i-- {
		chose = append(chose, vh.AltIds[i])
	}
	return &model.DecisionMaker{
		PreferenceFunction:  o.Method,
		BiasApplyRandomSeed: 99,
		KnownAlternatives:   jsonAlternatives(known),
		ChoseToMake:         jsonStrings(chose),
		Criteria:            jsonCriteria(crit),
		MethodParameters:    MethodParams(o, crit),
	}
}

// Bias builds one entry of the request's bias list.
func Bias(name string, props map[string]interface{}) interface{} {
	return map[string]interface{}{"name": BiasNameOf(name), "props": props}
}

// DefaultProps returns JSON-shaped props with which each bias fires and does something.
func DefaultProps(name string, dm *model.DecisionMaker, px string) map[string]interface{} {
	return DefaultPropsOpt(name, dm, px, false)
}

// DefaultPropsOpt: with concrete=true the bias's own numeric parameters are fixed numbers.
func DefaultPropsOpt(name string, dm *model.DecisionMaker, px string, concrete bool) map[string]interface{} {
	num := func(n string, lo, hi, c float64) float64 {
		if concrete {
			return c
		}
		return rt.FloatIn(n, lo, hi)
	}
	switch name {
	case "criteriaOmission":
		return map[string]interface{}{"ratio": 0.5, "max": float64(len(dm.Criteria) - 1)}
	case "preferenceReversal":
		return map[string]interface{}{"ratio": 0.5, "min": float64(1)}
	case "fatigue":
		return map[string]interface{}{"function": "const", "params": map[string]interface{}{"value": num(px+"fatigue.value", 0, 1, 0.5)}, "randomSeed": float64(21)}
	case "criteriaConcealment":
		return map[string]interface{}{"randomSeed": float64(22)}
	case "criteriaMixing":
		return map[string]interface{}{"randomSeed": float64(23), "mixingRatio": num(px+"mixingRatio", 0, 1, 0.25)}
	case "anchoring/newCriterion":
		m := DefaultPropsOpt("anchoring", dm, px, concrete)
		m["applier"] = map[string]interface{}{"function": "newCriterion", "params": map[string]interface{}{"randomSeed": float64(24)}}
		return m
	case "anchoring":
		return map[string]interface{}{
			"anchoringAlternatives": []interface{}{map[string]interface{}{"alternative": dm.KnownAlternatives[0].Id, "coefficient": float64(1)}},
			"loss":           map[string]interface{}{"function": "linear", "params": map[string]interface{}{"a": 0.5, "b": float64(0)}},
			"gain":           map[string]interface{}{"function": "linear", "params": map[string]interface{}{"a": 0.25, "b": float64(0)}},
			"referencePoints": map[string]interface{}{"function": "ideal"},
			"applier":        map[string]interface{}{"function": "inline"},
		}
	}
	panic("unknown bias " + name)
}

func AllIds(alts []model.AlternativeWithCriteria) []string {
	out := make([]string, len(alts))
	for i, a := range alts {
		out[i] = a.Id
	}
	return out
}
