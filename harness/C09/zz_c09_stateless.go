//go:build verif

//verif:dir zz_pipeline
package zz_pipeline

import (
	"github.com/Azbesciak/RealDecisionMaker/lib/logic/biases/criteria-concealment"
	"github.com/Azbesciak/RealDecisionMaker/lib/logic/biases/fatigue"
	"github.com/Azbesciak/RealDecisionMaker/lib/logic/biases/preference-reversal"
	"github.com/Azbesciak/RealDecisionMaker/lib/model"
	rt "github.com/Azbesciak/RealDecisionMaker/lib/zz_verifrt"
)

//verif:bounds C09 HC09_stateless: every method x (no bias | one bias variant) through the real MakeDecision with the service registries; A=3 known alternatives (considered all - so internal slices are shared - or all-but-one), K=2, JSON-shaped request whose slices carry the spare capacity encoding/json leaves; heuristics with currentChoice absent / taken from choseToMake / known-but-not-considered; two concrete value families, symbolic weights, ratios and draws
//verif:bounds C09 HC09_history: request X, then a different request Y (other method or bias), then X again on the same registries: first and third responses equal, the first response untouched by the later calls
//verif:outside C09: bias sequences longer than 1 for the report-faithfulness clauses (C07 checks threading for length 2); histories longer than 3

func c09reportFaithful(tag string, s *BiasStep) {
	switch p := s.Props.(type) {
	case fatigue.FatigueResult:
		rt.Assert(tag+".fatigue-report-is-state-handed-on", rt.DeepEqual(p.ConsideredAlternatives, s.After.ConsideredAlternatives) && rt.DeepEqual(p.NotConsideredAlternatives, s.After.NotConsideredAlternatives))
	case criteria_concealment.CriteriaConcealmentResult:
		for _, ac := range p.AddedCriteria {
			for id, v := range ac.AlternativesValues {
				a := findAlt(s.After, id)
				rt.Assert(tag+".concealment-report-is-state-handed-on", a != nil && a.Criteria[ac.Id] == v)
			}
			n := len(s.After.ConsideredAlternatives) + len(s.After.NotConsideredAlternatives)
			rt.Assert(tag+".concealment-reports-every-alternative", len(ac.AlternativesValues) == n)
		}
	case preference_reversal.PreferenceReversalResult:
		for _, rc := range p.ReversedPreferenceCriteria {
			for id, v := range rc.AlternativesValues {
				a := findAlt(s.After, id)
				rt.Assert(tag+".reversal-report-is-state-handed-on", a != nil && a.Criteria[rc.Id] == v)
			}
		}
	}
}

//verif:harness HC09_stateless mode=REAL reach=answered,rejected-or-error,cc-considered,all-considered,bias-fired
func HC09_stateless() {
	c := ChooseStd(BiasVariants)
	dm := c.Build("")
	c07known(c.Method, []string{c.Variant})
	snap := rt.Snapshot(dm)
	rt.Own(dm)
	rt.Epoch()
	out := Decide(dm)
	rt.Assert("C09.request-untouched", rt.Same(snap, dm))
	rt.Assert("C09.no-store-into-request-objects", rt.OwnedWrites() == 0)
	if c.CC == "considered" {
		rt.Reach("cc-considered")
	}
	if c.AllConsidered {
		rt.Reach("all-considered")
	}
	if out.Panicked {
		rt.Reach("rejected-or-error")
		// an error produced by the combination is C07's subject; statelessness must hold on that path too
		return
	}
	rt.Reach("answered")
	for i := range out.Rec.Steps {
		s := &out.Rec.Steps[i]
		if s.Panicked {
			continue
		}
		rt.Reach("bias-fired")
		// what the bias reported and handed on is not altered by later stages or by the method
		rt.Assert("C09.bias-report-not-altered-later", rt.Same(s.PropsSnap, s.Props))
		rt.Assert("C09.state-handed-on-not-altered-later", rt.Same(s.AfterSnap, s.After))
		rt.Assert("C09.state-received-not-altered", rt.Same(s.BeforeSnap, s.Before))
		c09reportFaithful("C09", s)
		// the response carries exactly that report
		if i < len(out.Choice.Biases) {
			bp, ok := out.Choice.Biases[i].(model.BiasParams)
			rt.Assert("C09.response-carries-the-report", ok && rt.DeepEqual(bp.Props, s.Props))
		}
	}
	if out.Rec.Evaluated != nil {
		rt.Assert("C09.method-does-not-alter-its-input-state", rt.Same(out.Rec.EvalSnap, out.Rec.Evaluated))
	}
}

//verif:harness HC09_history mode=REAL reach=answered-twice
func HC09_history() {
	c := ChooseStd([]string{"criteriaOmission", "fatigue", "criteriaMixing"})
	other := StdChoice{Method: rt.OneOf("other-method", "weightedSum", "satisfactionHeuristic", "electreIII"), Variant: "criteriaConcealment", CC: "none", AllConsidered: true, Values: 2, Rich: true}
	if other.Method == "satisfactionHeuristic" {
		other.CC = "considered"
	}
	c07known(c.Method, []string{c.Variant})
	x1 := c.Build("")
	out1 := Decide(x1)
	snap1 := rt.Snapshot(out1.Choice)
	rt.Epoch()
	// the intervening request is concrete (fixed draw pattern): its role is to exercise the shared registries
	rt.SetDrawMode(1)
	y := other.BuildOpt("y.", true)
	Decide(y)
	rt.SetDrawMode(0)
	x3 := c.Build("")
	out3 := Decide(x3)
	rt.Assert("C09.earlier-response-untouched-by-later-calls", rt.Same(snap1, out1.Choice))
	rt.Assert("C09.same-verdict-whatever-came-before", out1.Panicked == out3.Panicked)
	if !out1.Panicked && !out3.Panicked {
		rt.Reach("answered-twice")
		rt.Assert("C09.same-response-whatever-came-before", rt.DeepEqual(out1.Choice, out3.Choice))
	}
}
