//go:build verif

//verif:dir logic/preference-func/choquet
package choquet

import (
	"math"
	"strings"

	"github.com/Azbesciak/RealDecisionMaker/lib/model"
	vh "github.com/Azbesciak/RealDecisionMaker/lib/zz_vh"
	rt "github.com/Azbesciak/RealDecisionMaker/lib/zz_verifrt"
)

//verif:bounds C03 HC03_choquet_after_bias: the Choquet integral evaluated on the parameters its bias listener produces (a) when criteria are removed - K=3 criteria, any non-empty proper subset kept - and (b) when a criterion is added and merged (K=2 plus one new criterion with a symbolic value, capacities of the new combinations as emitted by the listener); the value must be the integral of the final values under the final capacities

func c03choquetRef(a *model.AlternativeWithCriteria, ids []string, caps model.Weights) float64 {
	ids = append([]string{}, ids...)
	for x := 0; x < len(ids); x++ {
		for y := x + 1; y < len(ids); y++ {
			if rt.Branch(a.Criteria[ids[y]] < a.Criteria[ids[x]]) {
				ids[x], ids[y] = ids[y], ids[x]
			}
		}
	}
	ref, prev := 0.0, 0.0
	for x := 0; x < len(ids); {
		cur := a.Criteria[ids[x]]
		y := x + 1
		for ; y < len(ids); y++ {
			d := a.Criteria[ids[y]] - cur
			if !(d <= 0.00001 && d >= -0.00001) {
				break
			}
		}
		ref += caps[c03key(ids[x:])] * (cur - prev)
		prev = cur
		x = y
	}
	return ref
}

//verif:harness HC03_choquet_after_bias mode=REAL reach=removed,added
func HC03_choquet_after_bias() {
	mode := rt.OneOf("bias-effect", "removed", "added")
	K := 3
	if mode == "added" {
		K = 2
	}
	crit := vh.Criteria(K, "gain")
	known := vh.Alternatives("", vh.AltIds[:2], crit)
	w := map[string]interface{}{}
	for mask := 1; mask < (1 << uint(K)); mask++ {
		var ids []string
		for j := 0; j < K; j++ {
			if mask&(1<<uint(j)) != 0 {
				ids = append(ids, crit[j].Id)
			}
		}
		w[strings.Join(ids, ",")] = rt.FloatIn("cap."+c03key(ids), 0, 1)
	}
	dm := &model.DecisionMaker{PreferenceFunction: "choquetIntegral", KnownAlternatives: known, ChoseToMake: []string{"b", "a"}, Criteria: crit,
		MethodParameters: map[string]interface{}{"weights": w}}
	f := &ChoquetIntegralPreferenceFunc{}
	params := f.ParseParams(dm)
	l := &ChoquetIntegralBiasListener{}
	var final model.Criteria
	var after interface{}
	alts := known
	if mode == "removed" {
		rt.Reach("removed")
		rot := rt.IntRange("rotation", 0, K-1)
		drop := rt.IntRange("dropped", 1, K-1)
		for i := drop; i < K; i++ {
			final = append(final, crit[(i+rot)%K])
		}
		after = l.OnCriteriaRemoved(&final, params)
		alts = *model.PreserveCriteriaForAlternatives(&known, &final)
	} else {
		rt.Reach("added")
		nc := model.Criterion{Id: "zz_new", Type: model.Gain}
		added := l.OnCriterionAdded(&nc, &crit[0], params, rt.Generators(41))
		after = l.Merge(params, added)
		final = crit.Add(&nc)
		alts = *model.AddCriterionToAlternatives(&known, &nc, func(a *model.AlternativeWithCriteria) model.Weight { return rt.Float(a.Id + ".new") })
	}
	dmp := vh.Params(alts, dm.ChoseToMake, final, after)
	r := f.Evaluate(dmp)
	vh.WellFormed("C03.choquet.post.wellformed", r, dm.ChoseToMake)
	caps := *after.(choquetParams).weights
	for i := range *r {
		a := vh.FindAlt(alts, (*r)[i].Alternative.Id)
		ref := c03choquetRef(a, *final.Names(), caps)
		u := choquetIntegral(a, after.(choquetParams).weights).Value()
		rt.Assert("C03.choquet.post-bias-value-is-choquet-integral", u == ref)
		rt.Assert("C03.choquet.post-bias-reported-is-rounded-aggregate", (*r)[i].Value() == math.Round(u*1e8)/1e8)
	}
}
