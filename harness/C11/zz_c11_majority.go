//go:build verif

//verif:dir logic/limited-rationality/majority
package majority

import (
	"github.com/Azbesciak/RealDecisionMaker/lib/model"
	"github.com/Azbesciak/RealDecisionMaker/lib/utils"
	vh "github.com/Azbesciak/RealDecisionMaker/lib/zz_vh"
	rt "github.com/Azbesciak/RealDecisionMaker/lib/zz_verifrt"
)

//verif:bounds C11 HC11_tournament: known alternatives A<=4 (quick) / A<=5 (thorough); considered = all (all-but-last when currentChoice is known-but-not-considered; thorough: both); K=2 criteria (quick) / K=1..3 (thorough), first criterion gain or cost, others alternate cost/gain, all four draw policies, currentChoice absent / first considered / last considered / known-not-considered, fixed search order; all values and weights free reals (weights in [0,4])
//verif:bounds C11 HC11_shuffle: seeded-random search order (every draw symbolic), A<=4, K<=2 (both tiers); the oracle replicates the seeded shuffle from the same stream and runs the full reference tournament
//verif:outside C11: A and K beyond the bounds; the value reported for the undefeated alternative (not part of the statement); rounding of score sums (REAL mode)
//verif:assume C11: scores are sums over the reals; ties are |s1-s2| <= 1e-6 and |v1-v2| <= 1e-6 exactly as in the statement

//verif:harness HC11_tournament mode=REAL reach=draw,win,loss,group3,cc-considered,cc-notconsidered
func HC11_tournament() {
	s := c11build(rt.Pick(4, 5), rt.Pick(2, 3), false)
	dmp := vh.Params(s.known, s.chose, s.crit, s.params)
	r := c11majority().Evaluate(dmp)
	vh.WellFormed("C11.wellformed", r, s.expectedIds)
	c11entryClauses("C11", s, r)

	c11reference(s, r, s.order, rt.Generators(s.params.RandomSeed))
}


// c11reference: the tournament over plain lists for a given search order; gen is the same seeded stream the
// heuristic uses (already advanced past the draws the search order consumed)
func c11reference(s *c11setup, r *model.AlternativesRanking, order []string, gen func() float64) {
	// reference tournament over plain lists
	winner := order[0]
	var tied []string
	var groups [][]string
	info := map[string]*c11info{}
	for _, x := range order[1:] {
		sw := c11score(s.crit, s.params.Weights, c11alt(s.known, winner), c11alt(s.known, x))
		sx := c11score(s.crit, s.params.Weights, c11alt(s.known, x), c11alt(s.known, winner))
		outcome := "new-loses"
		if utils.FloatsAreEqual(sw, sx, 1e-6) {
			rt.Reach("draw")
			switch s.params.DrawResolution {
			case "allow":
				outcome = "tie"
			case "current":
				outcome = "new-loses"
			case "newer":
				outcome = "new-wins"
			case "random":
				if gen() < 0.5 {
					outcome = "new-loses"
				} else {
					outcome = "new-wins"
				}
			}
		} else if sx < sw {
			rt.Reach("win")
		} else {
			rt.Reach("loss")
			outcome = "new-wins"
		}
		switch outcome {
		case "tie":
			tied = append(tied, x)
			info[x] = &c11info{id: x, opp: winner, own: sx, oppScore: sw}
		case "new-loses":
			groups = append(groups, []string{x})
			info[x] = &c11info{id: x, opp: winner, own: sx, oppScore: sw}
		case "new-wins":
			info[winner] = &c11info{id: winner, opp: x, own: sw, oppScore: sx}
			g := append(append([]string{}, tied...), winner)
			groups = append(groups, g)
			tied = nil
			winner = x
		}
	}
	groups = append(groups, append(append([]string{}, tied...), winner))
	if s.params.CurrentChoice != "" {
		if vh.Contains(s.chose, s.params.CurrentChoice) {
			rt.Reach("cc-considered")
		} else {
			rt.Reach("cc-notconsidered")
		}
	}
	// the ranking is the reverse order of dropping out, group by group
	pos := 0
	for gi := len(groups) - 1; gi >= 0; gi-- {
		g := groups[gi]
		if len(g) >= 3 {
			rt.Reach("group3")
		}
		var got []string
		for k := 0; k < len(g) && pos+k < len(*r); k++ {
			got = append(got, (*r)[pos+k].Alternative.Id)
		}
		rt.Assert("C11.reverse-dropout-order", vh.SameSet(got, g))
		// everything in the same or a lower group - and nothing else - is reachable through the links
		var lowerOrSame []string
		for gj := gi; gj >= 0; gj-- {
			lowerOrSame = append(lowerOrSame, groups[gj]...)
		}
		for _, id := range g {
			var want []string
			for _, x := range lowerOrSame {
				if x != id || len(g) > 1 {
					want = append(want, x)
				}
			}
			rt.Assert("C11.links-closure", vh.SameSet(vh.Reachable(r, id), want))
		}
		pos += len(g)
	}
	for i := range *r {
		e := (*r)[i]
		ev := e.Evaluation.(MajorityEvaluation)
		exp := info[e.Alternative.Id]
		if e.Alternative.Id == winner {
			rt.Assert("C11.winner-undefeated", ev.ComparedWith == "")
			continue
		}
		rt.Assert("C11.has-info", exp != nil)
		if exp == nil {
			continue
		}
		rt.Assert("C11.comparedWith", ev.ComparedWith == exp.opp)
		rt.Assert("C11.value", ev.Value == exp.own)
		rt.Assert("C11.comparedValue", ev.ComparedAlternativeValue == exp.oppScore)
	}
}

//verif:harness HC11_shuffle mode=REAL reach=shuffled
func HC11_shuffle() {
	s := c11build(4, 2, true) // A=5 with symbolic shuffle draws was not run to completion: not registered
	dmp := vh.Params(s.known, s.chose, s.crit, s.params)
	r := c11majority().Evaluate(dmp)
	vh.WellFormed("C11.shuffle.wellformed", r, s.expectedIds)
	c11entryClauses("C11.shuffle", s, r)
	// the seeded search order: current choice first, the other considered alternatives shuffled with the
	// heuristic's own stream (for i = n-1 .. 1: swap i with int(draw x i)); then the full reference tournament
	gen := rt.Generators(s.params.RandomSeed)
	var rest []string
	for _, id := range s.chose {
		if id != s.params.CurrentChoice {
			rest = append(rest, id)
		}
	}
	for i := len(rest) - 1; i > 0; i-- {
		j := int(gen() * float64(i))
		rest[i], rest[j] = rest[j], rest[i]
	}
	order := rest
	if s.params.CurrentChoice != "" {
		order = append([]string{s.params.CurrentChoice}, rest...)
	}
	c11reference(s, r, order, gen)
	if s.params.CurrentChoice != "" {
		// current choice first: it is the first to be compared, so if it is not the winner its opponent ... it is either undefeated or was met by someone
		rt.Reach("shuffled")
	} else {
		rt.Reach("shuffled")
	}
}
