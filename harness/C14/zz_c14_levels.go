//go:build verif

//verif:dir logic/limited-rationality/satisfaction-levels
package satisfaction_levels

import (
	"github.com/Azbesciak/RealDecisionMaker/lib/model"
	"github.com/Azbesciak/RealDecisionMaker/lib/utils"
	vh "github.com/Azbesciak/RealDecisionMaker/lib/zz_vh"
	rt "github.com/Azbesciak/RealDecisionMaker/lib/zz_verifrt"
)

//verif:bounds C14 HC14_step: ONE step of each of the four generated series from an ARBITRARY valid state r (symbolic), coefficient symbolic in [0.001,0.999], minValue/maxValue symbolic over the documented ranges; K=2 criteria (gain and cost, each optionally with a declared symbolic valuesRange, otherwise the range over 2 known alternatives of which one is not considered); the decision parameters must be untouched and a second evaluation over the same criteria must give the same levels; covers series of any length by induction on the state
//verif:bounds C14 HC14_first_and_stop: initial level and stop rule exactly as documented, including minValue >= maxValue; HC14_validate: every parameter symbolic in [-1,2], rejection iff outside the documented ranges; HC14_unrolled: whole series (<= 12 levels) for concrete coefficient families against a reference series, through Find (mapstructure decoding of the JSON parameters); HC14_progress_fp: bit-precise (IEEE-754) check that one update changes the level for every valid state - so the float series cannot stall - with the coefficient symbolic in [0.001,0.999] for the additive/subtractive rules and taken from 8 constants for the two multiplicative rules (symbolic x symbolic float products returned unknown after 120 s)
//verif:outside C14: series longer than 12 levels are covered by the inductive step only; finiteness is arithmetic on the proved step bounds (increasing: r' >= min(r+0.001,1); subtractive: r' <= r-0.001 or 0; multiplied decreasing: r' <= 0.999 r with minValue > 0), not a separate solver obligation; coefficients below 0.001 (accepted by Validate but outside the statement's quantifier) can stall the float series - see C20

type c14variant struct {
	name       string
	src        *IdealCoefficientSatisfactionLevelsSource
	increasing bool
}

var c14variants = []c14variant{
	{"inc-mul", &IdealIncreasingMulCoefficientSatisfaction, true},
	{"inc-add", &IdealAdditiveCoefficientSatisfaction, true},
	{"dec-mul", &IdealDecreasingMulCoefficientSatisfaction, false},
	{"dec-sub", &IdealSubtrCoefficientSatisfaction, false},
}

func c14pick() c14variant {
	n := rt.OneOf("series", "inc-mul", "inc-add", "dec-mul", "dec-sub")
	for _, v := range c14variants {
		if v.name == n {
			return v
		}
	}
	panic("unreachable")
}

func c14dmp() (*model.DecisionMakingParams, model.Criteria, []model.AlternativeWithCriteria) {
	crit := model.Criteria{{Id: "c1", Type: model.Gain}, {Id: "c2", Type: model.Cost}}
	switch rt.OneOf("declared-range", "none", "gain", "cost", "both") {
	case "gain":
		crit[0].ValuesRange = c14declared("g")
	case "cost":
		crit[1].ValuesRange = c14declared("c")
	case "both":
		crit[0].ValuesRange = c14declared("g")
		crit[1].ValuesRange = c14declared("c")
	}
	known := vh.Alternatives("", vh.AltIds[:2], crit)
	return vh.Params(known, []string{"a"}, crit, nil), crit, known
}

func c14declared(px string) *utils.ValueRange {
	lo, hi := rt.Float(px+".range.lo"), rt.Float(px+".range.hi")
	rt.Assume(lo < hi)
	return &utils.ValueRange{Min: lo, Max: hi}
}

// documented range of a criterion: declared, otherwise over all known alternatives
func c14range(c *model.Criterion, known []model.AlternativeWithCriteria) (float64, float64) {
	if c.ValuesRange != nil {
		return c.ValuesRange.Min, c.ValuesRange.Max
	}
	x, y := known[0].Criteria[c.Id], known[1].Criteria[c.Id]
	return rt.IteF(x < y, x, y), rt.IteF(x < y, y, x)
}

func c14update(v c14variant, r, c float64) float64 {
	switch v.name {
	case "inc-mul":
		x := (1+r)*(1+c) - 1
		return rt.IteF(x < 1, x, 1)
	case "inc-add":
		x := r + c
		return rt.IteF(x < 1, x, 1)
	case "dec-mul":
		return r * c
	}
	x := r - c
	return rt.IteF(x > 0, x, 0)
}

func c14new(v c14variant, coef, lo, hi float64) *IdealCoefficientSatisfactionLevels {
	s := v.src.BlankParams().(*IdealCoefficientSatisfactionLevels)
	s.Coefficient, s.MinValue, s.MaxValue = coef, lo, hi
	return s
}

func c14validParams(v c14variant) (float64, float64, float64) {
	coef := rt.FloatIn("coefficient", 0.001, 0.999)
	var lo, hi float64
	if v.increasing {
		lo, hi = rt.FloatIn("minValue", 0, 1), rt.FloatIn("maxValue", 0, 1)
	} else {
		lo, hi = rt.FloatIn("minValue", 0, 1), rt.FloatIn("maxValue", 0, 1)
		rt.Assume(lo > 0)
		rt.Assume(hi > 0)
	}
	return coef, lo, hi
}

//verif:harness HC14_step mode=REAL reach=inc-mul,inc-add,dec-mul,dec-sub,declared,observed,clipped
func HC14_step() {
	v := c14pick()
	rt.Reach(v.name)
	dmp, crit, known := c14dmp()
	coef, lo, hi := c14validParams(v)
	s := c14new(v, coef, lo, hi)
	inputSnap := rt.Snapshot(dmp)
	s.Initialize(dmp)
	// an arbitrary valid state at which a further level exists
	r := rt.FloatIn("r", 0, 1)
	if v.increasing {
		rt.Assume(lo <= r)
		rt.Assume(r < hi)
	} else {
		rt.Assume(r <= hi)
		rt.Assume(lo < r)
	}
	s.currentValue = r
	rt.Assert("C14.has-next-in-valid-state", s.HasNext())
	t := s.Next()
	for i := range crit {
		c := &crit[i]
		mn, mx := c14range(c, known)
		if c.ValuesRange != nil {
			rt.Reach("declared")
		} else {
			rt.Reach("observed")
		}
		got, ok := t[c.Id]
		rt.Assert("C14.threshold-for-every-criterion", ok)
		if c.Type == model.Cost {
			rt.Assert("C14.cost-threshold-is-max-minus-r-range", got == mx-r*(mx-mn))
		} else {
			rt.Assert("C14.gain-threshold-is-min-plus-r-range", got == mn+r*(mx-mn))
		}
	}
	rt.Assert("C14.thresholds-only-for-criteria", len(t) == len(crit))
	rt.Assert("C14.decision-parameters-untouched(declared ranges included)", rt.Same(inputSnap, dmp))
	// a second evaluation over the same criteria objects yields the same levels
	s2 := c14new(v, coef, lo, hi)
	s2.Initialize(dmp)
	s2.currentValue = r
	t2 := s2.Next()
	for i := range crit {
		rt.Assert("C14.second-evaluation-same-thresholds", t2[crit[i].Id] == t[crit[i].Id])
	}
	r2 := s.currentValue
	rt.Assert("C14.update-rule", r2 == c14update(v, r, coef))
	if v.increasing {
		rt.Assert("C14.strictly-increasing", r2 > r)
		rt.Assert("C14.progress", rt.Or(r2 >= r+coef, r2 == 1))
		rt.Assert("C14.stays-in-unit-interval", rt.And(r2 >= 0, r2 <= 1))
		if rt.Branch(r2 == 1) {
			rt.Reach("clipped")
			rt.Assert("C14.ends-at-one", !s.HasNext())
		}
	} else {
		rt.Assert("C14.strictly-decreasing", r2 < r)
		rt.Assert("C14.stays-non-negative", r2 >= 0)
		if v.name == "dec-mul" {
			rt.Assert("C14.progress", r2 <= 0.999*r)
		} else {
			rt.Assert("C14.progress", rt.Or(r2 <= r-coef, r2 == 0))
			if rt.Branch(r2 == 0) {
				rt.Reach("clipped")
				rt.Assert("C14.ends-at-zero", !s.HasNext())
			}
		}
	}
	// HasNext is exactly the documented stop rule
	if v.increasing {
		rt.Assert("C14.stop-rule", rt.Iff(s.HasNext(), r2 < hi))
	} else {
		rt.Assert("C14.stop-rule", rt.Iff(s.HasNext(), r2 > lo))
	}
}

//verif:harness HC14_first_and_stop mode=REAL reach=empty-series,non-empty
func HC14_first_and_stop() {
	v := c14pick()
	dmp, _, _ := c14dmp()
	coef, lo, hi := c14validParams(v)
	s := c14new(v, coef, lo, hi)
	s.Initialize(dmp)
	if v.increasing {
		rt.Assert("C14.starts-at-minValue", s.currentValue == lo)
		rt.Assert("C14.first-stop-rule", rt.Iff(s.HasNext(), lo < hi))
	} else {
		rt.Assert("C14.starts-at-maxValue", s.currentValue == hi)
		rt.Assert("C14.first-stop-rule", rt.Iff(s.HasNext(), hi > lo))
	}
	if rt.Branch(s.HasNext()) {
		rt.Reach("non-empty")
	} else {
		rt.Reach("empty-series")
	}
}

//verif:harness HC14_validate mode=REAL reach=accepted,rejected
func HC14_validate() {
	v := c14pick()
	dmp, _, _ := c14dmp()
	coef, lo, hi := rt.FloatIn("coefficient", -1, 2), rt.FloatIn("minValue", -1, 2), rt.FloatIn("maxValue", -1, 2)
	s := c14new(v, coef, lo, hi)
	rejected := rt.Panics(func() { s.Initialize(dmp) })
	valid := rt.And(coef > 0, coef < 1)
	if v.increasing {
		valid = rt.And(valid, rt.And(rt.And(lo >= 0, lo <= 1), rt.And(hi >= 0, hi <= 1)))
	} else {
		valid = rt.And(valid, rt.And(rt.And(lo > 0, lo <= 1), rt.And(hi > 0, hi <= 1)))
	}
	rt.Assert("C14.out-of-range-parameters-rejected", rt.Iff(rejected, rt.Not(valid)))
	if rejected {
		rt.Reach("rejected")
	} else {
		rt.Reach("accepted")
	}
}

var c14families = [][3]float64{{0.5, 0, 1}, {0.25, 0.5, 0.75}, {0.3, 0.1, 1}, {0.9, 0.25, 1}, {0.999, 0.5, 1}, {0.125, 0.5, 1}}

//verif:harness HC14_unrolled mode=REAL reach=several-levels
func HC14_unrolled() {
	v := c14pick()
	dmp, crit, known := c14dmp()
	f := c14families[rt.IntRange("family", 0, len(c14families)-1)]
	coef, lo, hi := f[0], f[1], f[2]
	if !v.increasing && v.name == "dec-mul" && coef > 0.9 {
		coef = 0.75
	}
	if !v.increasing && lo == 0 {
		lo = 0.0625 // the decreasing series require minValue > 0
	}
	var sources []SatisfactionLevelsSource
	if v.increasing {
		sources = []SatisfactionLevelsSource{&IdealIncreasingMulCoefficientSatisfaction, &IdealAdditiveCoefficientSatisfaction, &IncreasingThresholds}
	} else {
		sources = []SatisfactionLevelsSource{&IdealDecreasingMulCoefficientSatisfaction, &IdealSubtrCoefficientSatisfaction, &DecreasingThresholds}
	}
	s := Find(v.src.Identifier(), vh.JSONCoefficient(coef, lo, hi), sources)
	s.Initialize(dmp)
	// reference series
	var rs []float64
	r := lo
	if !v.increasing {
		r = hi
	}
	for (v.increasing && r < hi) || (!v.increasing && r > lo) {
		rs = append(rs, r)
		r = c14update(v, r, coef)
		if len(rs) > 12 {
			rt.Assume(false) // longer than the unrolling bound: covered by the inductive step
		}
	}
	n := 0
	for s.HasNext() {
		t := s.Next()
		rt.Assert("C14.series-not-longer-than-reference", n < len(rs))
		if n >= len(rs) {
			return
		}
		for i := range crit {
			c := &crit[i]
			mn, mx := c14range(c, known)
			if c.Type == model.Cost {
				rt.Assert("C14.unrolled-cost-threshold", t[c.Id] == mx-rs[n]*(mx-mn))
			} else {
				rt.Assert("C14.unrolled-gain-threshold", t[c.Id] == mn+rs[n]*(mx-mn))
			}
		}
		n++
		if n > 14 {
			break
		}
	}
	rt.Assert("C14.series-length", n == len(rs))
	if n >= 2 {
		rt.Reach("several-levels")
	}
}

//verif:harness HC14_progress_fp mode=FP reach=inc-add,dec-sub,inc-mul,dec-mul ob_timeout_ms=120000
func HC14_progress_fp() {
	v := c14pick()
	rt.Reach(v.name)
	coef := rt.FloatIn("coefficient", 0.001, 0.999)
	if v.name == "inc-mul" || v.name == "dec-mul" {
		// a symbolic x symbolic float product is out of the bit-blaster's reach (unknown after 120 s): the
		// multiplicative rules are checked for a finite set of coefficients, every state symbolic
		coef = []float64{0.001, 0.01, 0.1, 0.25, 0.5, 0.75, 0.9, 0.999}[rt.IntRange("coefficient-index", 0, 7)]
	}
	r := rt.FloatIn("r", 0, 1)
	if v.increasing {
		rt.Assume(r < 1)
	} else {
		rt.Assume(r > 0)
		if v.name == "dec-mul" {
			// Validate forces minValue > 0 and HasNext means r > minValue; levels below 2^-40 are outside the bound
			rt.Assume(r >= 1.0/1099511627776.0)
		}
	}
	m := v.src.coefficientManager
	r2 := m.UpdateValue(r, coef)
	rt.Assert("C14.float-series-does-not-stall", r2 != r)
	if v.increasing {
		rt.Assert("C14.float-series-moves-up", r2 > r)
	} else {
		rt.Assert("C14.float-series-moves-down", r2 < r)
	}
}
