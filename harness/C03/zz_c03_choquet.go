//go:build verif

//verif:dir logic/preference-func/choquet
package choquet

import (
	"math"
	"sort"
	"strings"

	"github.com/Azbesciak/RealDecisionMaker/lib/model"
	vh "github.com/Azbesciak/RealDecisionMaker/lib/zz_vh"
	rt "github.com/Azbesciak/RealDecisionMaker/lib/zz_verifrt"
)

//verif:bounds C03 HC03_choquet: K<=3 (quick, 7 capacities) / K<=4 (thorough, 15 capacities) gain criteria, capacities free in [0,1], values free reals, A<=2 alternatives; capacity keys given in non-canonical order ("c2,c1"); every ordering / 1e-5 tie pattern of the values is a path
//verif:assume C03 choquet: values within 1e-5 of the smallest value of a group are tied (grouping by the first element, as the statement requires the oracle to do)

// capacity key of a criteria set, canonical form
func c03key(ids []string) string {
	s := append([]string{}, ids...)
	sort.Strings(s)
	return strings.Join(s, ",")
}

//verif:harness HC03_choquet mode=REAL reach=near-tie,strict,three-way-tie
func HC03_choquet() {
	K := rt.IntRange("K", 1, rt.Pick(3, 4))
	crit := vh.Criteria(K, "gain")
	known := vh.Alternatives("", vh.AltIds[:2], crit)
	w := map[string]interface{}{}
	caps := map[string]float64{}
	for mask := 1; mask < (1 << uint(K)); mask++ {
		var ids []string
		for j := K - 1; j >= 0; j-- { // descending: non-canonical key order
			if mask&(1<<uint(j)) != 0 {
				ids = append(ids, crit[j].Id)
			}
		}
		x := rt.FloatIn("cap."+c03key(ids), 0, 1)
		w[strings.Join(ids, ",")] = x
		caps[c03key(ids)] = x
	}
	dm := &model.DecisionMaker{PreferenceFunction: "choquetIntegral", KnownAlternatives: known, ChoseToMake: []string{"b", "a"}, Criteria: crit,
		MethodParameters: map[string]interface{}{"weights": w}}
	f := &ChoquetIntegralPreferenceFunc{}
	dmp := vh.Params(known, dm.ChoseToMake, crit, f.ParseParams(dm))
	r := f.Evaluate(dmp)
	vh.WellFormed("C03.choquet.wellformed", r, dm.ChoseToMake)
	for i := range *r {
		a := vh.FindAlt(known, (*r)[i].Alternative.Id)
		// ascending order of the criteria by value (plain selection; comparisons are decided by the path)
		ids := []string{}
		for _, c := range crit {
			ids = append(ids, c.Id)
		}
		for x := 0; x < len(ids); x++ {
			for y := x + 1; y < len(ids); y++ {
				if rt.Branch(a.Criteria[ids[y]] < a.Criteria[ids[x]]) {
					ids[x], ids[y] = ids[y], ids[x]
				}
			}
		}
		ref, prev := 0.0, 0.0
		for x := 0; x < len(ids); {
			cur := a.Criteria[ids[x]]
			y := x + 1
			for ; y < len(ids); y++ {
				d := a.Criteria[ids[y]] - cur
				if !(d <= 0.00001 && d >= -0.00001) {
					break
				}
			}
			if y-x >= 2 {
				rt.Reach("near-tie")
			}
			if y-x >= 3 {
				rt.Reach("three-way-tie")
			}
			if y-x == 1 && len(ids) >= 2 {
				rt.Reach("strict")
			}
			ref += caps[c03key(ids[x:])] * (cur - prev)
			prev = cur
			x = y
		}
		u := choquetIntegral(a, dmp.MethodParameters.(choquetParams).weights).Value()
		rt.Assert("C03.choquet.value-is-choquet-integral", u == ref)
		rt.Assert("C03.choquet.reported-is-rounded-aggregate", (*r)[i].Value() == math.Round(u*1e8)/1e8)
		rt.Observe("choquet."+a.Id, (*r)[i].Value())
	}
}
