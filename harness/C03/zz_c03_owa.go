//go:build verif

//verif:dir logic/preference-func/owa
package owa

import (
	"math"

	"github.com/Azbesciak/RealDecisionMaker/lib/model"
	vh "github.com/Azbesciak/RealDecisionMaker/lib/zz_vh"
	rt "github.com/Azbesciak/RealDecisionMaker/lib/zz_verifrt"
)

//verif:bounds C03 HC03_owa: K<=3 (quick) / K<=4 (thorough) criteria, A=2 alternatives (A=1 at K=4), weights in [-4,4] and values free reals, every ordering and tie of weights and values; parameters through ParseParams

// ascending selection sort (independent of the implementation's insertion sort; its comparisons
// are decided by the path the implementation has taken)
func c03sortAsc(v []float64) []float64 {
	out := append([]float64{}, v...)
	for i := 0; i < len(out); i++ {
		for j := i + 1; j < len(out); j++ {
			if rt.Branch(out[j] < out[i]) {
				out[i], out[j] = out[j], out[i]
			}
		}
	}
	return out
}

//verif:harness HC03_owa mode=REAL reach=unsorted-input
func HC03_owa() {
	K := rt.IntRange("K", 1, rt.Pick(3, 4))
	crit := vh.Criteria(K, "")
	chose := []string{"b", "a"}
	if K == 4 {
		chose = []string{"a"} // thorough tier: at K=4 one alternative (the aggregate clause); rankings of two are covered at K<=3
	}
	known := vh.Alternatives("", vh.AltIds[:len(chose)], crit)
	w := map[string]interface{}{}
	var ws []float64
	for _, c := range crit {
		x := rt.FloatIn("w."+c.Id, -4, 4)
		w[c.Id] = x
		ws = append(ws, x)
	}
	dm := &model.DecisionMaker{PreferenceFunction: "owa", KnownAlternatives: known, ChoseToMake: chose, Criteria: crit,
		MethodParameters: map[string]interface{}{"weights": w}}
	f := &OWAPreferenceFunc{}
	dmp := vh.Params(known, dm.ChoseToMake, crit, f.ParseParams(dm))
	r := f.Evaluate(dmp)
	vh.WellFormed("C03.owa.wellformed", r, dm.ChoseToMake)
	sw := c03sortAsc(ws)
	for i := range *r {
		a := vh.FindAlt(known, (*r)[i].Alternative.Id)
		var vs []float64
		for _, c := range crit {
			vs = append(vs, a.Criteria[c.Id])
		}
		if K >= 2 && vs[0] > vs[1] {
			rt.Reach("unsorted-input")
		}
		sv := c03sortAsc(vs)
		ref := 0.0
		for k := range sv {
			ref += sw[k] * sv[k]
		}
		u := OWA(*a, *dmp.MethodParameters.(owaParams).Weights).Value()
		rt.Assert("C03.owa.value-is-ordered-weighted-average", u == ref)
		rt.Assert("C03.owa.reported-is-rounded-aggregate", (*r)[i].Value() == math.Round(u*1e8)/1e8)
		rt.Observe("owa."+a.Id, (*r)[i].Value())
	}
}
