//go:build verif

//verif:dir logic/biases/criteria-concealment
package criteria_concealment

import (
	"github.com/Azbesciak/RealDecisionMaker/lib/logic/limited-rationality/majority"
	"github.com/Azbesciak/RealDecisionMaker/lib/model"
	"github.com/Azbesciak/RealDecisionMaker/lib/model/reference-criterion"
	"github.com/Azbesciak/RealDecisionMaker/lib/utils"
	vh "github.com/Azbesciak/RealDecisionMaker/lib/zz_vh"
	rt "github.com/Azbesciak/RealDecisionMaker/lib/zz_verifrt"
)

//verif:bounds C18 HC18_concealment: CriteriaConcealment.Apply applied 1..3 times in a row (repeated application) with the majority listener (a weight-based method): K in 1..3 criteria (gain/cost, first optionally with a declared symbolic range), A=2 known alternatives (one not considered), symbolic values, weights in [0.125,4], newCriterionScaling symbolic in [0.125,4] or negative, all three reference-criterion strategies with symbolic newCriterionImportance / draws, bounding off / non-negative / scaled; JSON-shaped props through the mapstructure model
//verif:outside C18: weights equal to 0 with the randomWeighted strategy divide by zero inside the provider (not a documented input; weights here are >= 0.125); methods whose parameters are not weight maps get their additions checked by C07 (mergeability) only

func c18manager() reference_criterion.ReferenceCriteriaManager {
	return *reference_criterion.NewReferenceCriteriaManager([]reference_criterion.ReferenceCriterionFactory{
		&reference_criterion.ImportanceRatioReferenceCriterionManager{},
		&reference_criterion.RandomUniformReferenceCriterionManager{RandomFactory: rt.Generators},
		&reference_criterion.RandomWeightedReferenceCriterionManager{RandomFactory: rt.Generators},
	})
}

func c18all(d *model.DecisionMakingParams) []model.AlternativeWithCriteria {
	return append(append([]model.AlternativeWithCriteria{}, d.ConsideredAlternatives...), d.NotConsideredAlternatives...)
}

//verif:harness HC18_concealment mode=REAL reach=applied-thrice,importanceRatio,randomUniform,randomWeighted,bounded,negative-scaling
func HC18_concealment() {
	K := rt.IntRange("K", 1, 3)
	crit := vh.Criteria(K, "")
	if rt.Bool("declared-range") {
		lo, hi := rt.Float("range.lo"), rt.Float("range.hi")
		rt.Assume(lo < hi)
		crit[0].ValuesRange = &utils.ValueRange{Min: lo, Max: hi}
	}
	known := vh.Alternatives("", vh.AltIds[:2], crit)
	w := vh.Weights("w.", crit, 0.125, 4)
	current := vh.Params(known, []string{"b"}, crit, majority.MajorityHeuristicParams{Weights: w})
	// the original parameters differ from the current ones (as after an earlier bias): the new criterion must be derived from the current state
	origCrit := append(append(model.Criteria{}, crit...), model.Criterion{Id: "dropped-earlier", Type: model.Gain})
	original := vh.Params(vh.Alternatives("orig.", vh.AltIds[:2], origCrit), []string{"b"}, origCrit, majority.MajorityHeuristicParams{Weights: vh.Weights("orig.w.", origCrit, 0.125, 4)})
	var listener model.BiasListener = &majority.MajorityBiasListener{}
	strategy := rt.OneOf("strategy", "default", "importanceRatio", "randomUniform", "randomWeighted")
	scaling := rt.FloatIn("newCriterionScaling", 0.125, 4)
	if rt.Bool("negative-scaling") {
		scaling = -scaling
		rt.Reach("negative-scaling")
	}
	bounding := rt.OneOf("bounding", "off", "non-negative", "scaled")
	times := rt.IntRange("times", 1, 3)
	if times > 1 {
		// repeated application is a shape-level check (unique ids, coherent extension): values, weights and the
		// scaling are concrete and the draws follow a fixed pattern; the single application above is fully symbolic
		rt.SetDrawMode(rt.IntRange("draw-pattern", 1, 2))
		for i := range known {
			for j, c := range crit {
				known[i].Criteria[c.Id] = [][]float64{{1, -2, 3}, {4, 0.5, 3}}[i][j]
			}
		}
		for j, c := range crit {
			w[c.Id] = []float64{0.5, 2, 1}[j]
		}
		if scaling > 0 {
			scaling = 0.5
		} else {
			scaling = -2
		}
		current = vh.Params(known, []string{"b"}, crit, majority.MajorityHeuristicParams{Weights: w})
		original = current
	}
	bias := NewCriteriaConcealment(rt.Generators, c18manager())
	for t := 0; t < times; t++ {
		seed := int64(80 + t)
		props := map[string]interface{}{"randomSeed": float64(seed), "newCriterionScaling": scaling}
		switch strategy {
		case "importanceRatio":
			props["referenceCriterionType"] = "importanceRatio"
			if times > 1 {
				props["newCriterionImportance"] = 0.5
			} else {
				props["newCriterionImportance"] = rt.FloatIn("importance", 0, 1)
			}
			rt.Reach("importanceRatio")
		case "randomUniform", "randomWeighted":
			props["referenceCriterionType"] = strategy
			props["newCriterionRandomSeed"] = float64(90 + t)
			rt.Reach(strategy)
		}
		bs := -1.0
		switch bounding {
		case "non-negative":
			props["disallowNegativeValues"] = true
			rt.Reach("bounded")
		case "scaled":
			bs = 0.5
			props["allowedValuesRangeScaling"] = bs
			rt.Reach("bounded")
		}
		var bp model.BiasProps = props
		before := current
		snap := rt.Snapshot(before)
		res := bias.Apply(original, before, &bp, &listener)
		rt.Assert("C18.received-state-untouched", rt.Same(snap, before))
		after := res.DMP
		rep := res.Props.(CriteriaConcealmentResult)
		rt.Assert("C18.exactly-one-criterion-reported", len(rep.AddedCriteria) == 1)
		rt.Assert("C18.exactly-one-criterion-appended", len(after.Criteria) == len(before.Criteria)+1)
		if len(rep.AddedCriteria) != 1 || len(after.Criteria) != len(before.Criteria)+1 {
			return
		}
		ac := rep.AddedCriteria[0]
		nc := after.Criteria[len(after.Criteria)-1]
		prev := *before.Criteria.Names()
		for i := range before.Criteria {
			rt.Assert("C18.existing-criteria-kept-in-order", after.Criteria[i].Id == before.Criteria[i].Id)
		}
		rt.Assert("C18.new-id-unused", !vh.Contains(prev, nc.Id))
		rt.Assert("C18.new-criterion-is-gain", nc.Type == model.Gain && ac.Type == model.Gain && ac.Id == nc.Id)
		// the reference criterion is one of the existing criteria: its scaled range is the new range and the new
		// weight is a seeded fraction of its weight
		gen := rt.Generators(seed) // the same stream the bias consumes (symbolic draws, or the fixed pattern)
		var us []float64
		for range c18all(before) {
			us = append(us, gen())
		}
		g := gen()
		bw := before.MethodParameters.(majority.MajorityHeuristicParams).Weights
		aw := after.MethodParameters.(majority.MajorityHeuristicParams).Weights
		rt.Assert("C18.parameters-extended-by-one", len(aw) == len(bw)+1)
		nw, okw := aw[nc.Id]
		rt.Assert("C18.new-weight-present", okw)
		matches := false
		allBefore := c18all(before)
		for i := range before.Criteria {
			c := before.Criteria[i]
			mn, mx := vh.RangeOf(&c, allBefore)
			half := (mx - mn) / 2
			lo, hi := mn+half-half*scaling, mx-half+half*scaling
			m := rt.And(rt.And(ac.ValuesRange.Min == lo, ac.ValuesRange.Max == hi), nw == g*bw[c.Id])
			matches = rt.Or(matches, m)
		}
		rt.Assert("C18.reference-is-an-existing-criterion(range-and-weight-fraction)", matches)
		for _, c := range prev {
			rt.Assert("C18.existing-weights-unchanged", aw[c] == bw[c])
		}
		// every known alternative gets a value in the new range (then bounded); existing values untouched
		allAfter := c18all(after)
		rt.Assert("C18.alternatives-kept", len(allAfter) == len(allBefore) && len(ac.AlternativesValues) == len(allBefore))
		sorted := []string{"a", "b"} // values are drawn for the alternatives sorted by id
		for si, id := range sorted {
			a := vh.FindAlt(allAfter, id)
			b := vh.FindAlt(allBefore, id)
			v, ok := a.Criteria[nc.Id]
			rt.Assert("C18.every-alternative-gets-a-value", ok)
			rv, rok := ac.AlternativesValues[id]
			rt.Assert("C18.report-carries-the-value", rok && rv == v)
			raw := us[si]*(ac.ValuesRange.Max-ac.ValuesRange.Min) + ac.ValuesRange.Min
			exp := raw
			if bounding == "non-negative" {
				exp = rt.IteF(exp < 0, 0, exp)
			}
			if bs > 0 {
				h := (ac.ValuesRange.Max - ac.ValuesRange.Min) / 2
				lo, hi := ac.ValuesRange.Min+h-h*bs, ac.ValuesRange.Max-h+h*bs
				exp = rt.IteF(exp < lo, lo, exp)
				exp = rt.IteF(exp > hi, hi, exp)
			}
			rt.Assert("C18.concealed-value-in-scaled-reference-range-then-bounded", v == exp)
			if bounding == "off" && scaling > 0 {
				rt.Assert("C18.concealed-value-inside-new-range", rt.And(v >= ac.ValuesRange.Min, v <= ac.ValuesRange.Max))
			}
			rt.Assert("C18.no-other-value-added", len(a.Criteria) == len(b.Criteria)+1)
			for _, c := range prev {
				rt.Assert("C18.existing-values-untouched", a.Criteria[c] == b.Criteria[c])
			}
		}
		rt.Assert("C18.split-unchanged", len(after.ConsideredAlternatives) == 1 && len(after.NotConsideredAlternatives) == 1 && after.ConsideredAlternatives[0].Id == "b")
		current = after
		if t == 2 {
			rt.Reach("applied-thrice")
		}
	}
}
