//go:build verif

//verif:dir logic/biases/fatigue
package fatigue

import (
	"github.com/Azbesciak/RealDecisionMaker/lib/model"
	"github.com/Azbesciak/RealDecisionMaker/lib/utils"
	vh "github.com/Azbesciak/RealDecisionMaker/lib/zz_vh"
	rt "github.com/Azbesciak/RealDecisionMaker/lib/zz_verifrt"
)

//verif:bounds C17 HC17_blur: Fatigue.Apply on A<=3 (quick) / A<=4 (thorough) known alternatives (last one optionally not considered), K<=2 / K<=3 criteria (first optionally with a declared symbolic valuesRange), values of any sign, both ratio functions (const with a symbolic value; expFromZero with symbolic alpha and multiplier, e^x uninterpreted with positivity/monotonicity/exp(0)=1), all seeded draws symbolic, bounding off (everything symbolic) / non-negative / scaled / both (criterion values from two concrete families with mixed signs, ties and a degenerate criterion, ratio from {0,0.5,-1.5,3}, scaling from {0.5,1,2}, draws and the declared range symbolic); JSON-shaped props through the mapstructure model
//verif:outside C17: numeric value of e^x for symbolic exponents (uninterpreted); value and sign streams are created from the same seed, as in the service, so they are the same stream - the model keeps that correlation
//verif:assume C17: REAL arithmetic for the inequality |v'-v| <= |f v| (the statement's own formulation)

func c17abs(x float64) float64 { return rt.IteF(x < 0, -x, x) }

//verif:harness HC17_blur mode=REAL reach=plus,minus,clipped-low,clipped-high,raised-to-zero,exp-function,not-considered,declared-range
func HC17_blur() {
	A := rt.IntRange("A", 1, rt.Pick(3, 4))
	K := rt.IntRange("K", 1, rt.Pick(2, 3))
	crit := vh.Criteria(K, "gain")
	if rt.Bool("declared-range") {
		lo, hi := rt.FloatIn("range.lo", -4, 4), rt.FloatIn("range.hi", -4, 8)
		rt.Assume(lo < hi)
		crit[0].ValuesRange = &utils.ValueRange{Min: lo, Max: hi}
		rt.Reach("declared-range")
	}
	known := vh.Alternatives("", vh.AltIds[:A], crit)
	bounding := rt.OneOf("bounding", "off", "non-negative", "scaled", "both")
	if bounding != "off" {
		// with bounding the clip tests compare moved values with range ends: products of three symbolic factors
		// (draw x ratio x value) make those comparisons intractable, so values come from concrete families
		// (mixed signs, ties, a degenerate criterion) and the ratio / scaling from finite sets; draws stay symbolic
		fam := rt.IntRange("values", 0, 1)
		vals := [][][]float64{{{1, -2, 0.5}, {3, 4, 0.5}, {-1, 4, 0.5}, {2, 0, 0.5}}, {{-1, -1, 2}, {-3, 5, -2}, {0, 5, 7}, {-3, 1, 1}}}
		for i := range known {
			for j, c := range crit {
				known[i].Criteria[c.Id] = vals[fam][i][j]
			}
		}
	}
	chose := append([]string{}, vh.AltIds[:A]...)
	if A > 1 && rt.Bool("last-not-considered") {
		chose = chose[:A-1]
		rt.Reach("not-considered")
	}
	if len(chose) > 1 && rt.Bool("chose-listed-descending") {
		for i, j := 0, len(chose)-1; i < j; i, j = i+1, j-1 {
			chose[i], chose[j] = chose[j], chose[i]
		}
	}
	methodParams := &struct{ X int }{7}
	current := vh.Params(known, chose, crit, methodParams)
	props := map[string]interface{}{"randomSeed": float64(31)}
	var f float64
	if bounding == "off" && rt.Bool("exp-function") {
		alpha, mult := rt.FloatIn("alpha", -2, 2), rt.FloatIn("multiplier", -2, 2)
		q := int64(rt.IntRange("queryNumber", 0, 3))
		props["function"] = "expFromZero"
		props["params"] = map[string]interface{}{"alpha": alpha, "multiplier": mult, "queryNumber": float64(q)}
		ef := utils.ExpFromZeroFunction{Alpha: alpha, Multiplier: mult}
		f = ef.Evaluate(float64(q)) // multiplier * (e^(alpha q) - 1), same exported function the bias uses
		rt.Reach("exp-function")
		if q == 0 {
			rt.Assert("C17.exp-ratio-is-zero-at-query-zero", f == 0)
		}
	} else {
		f = rt.FloatIn("value", -2, 2)
		if bounding != "off" {
			f = []float64{0, 0.5, -1.5, 3}[rt.IntRange("ratio-index", 0, 3)]
		}
		props["function"] = "const"
		props["params"] = map[string]interface{}{"value": f}
	}
	scaling := -1.0
	if bounding == "scaled" || bounding == "both" {
		scaling = []float64{0.5, 1, 2}[rt.IntRange("scaling-index", 0, 2)]
		props["allowedValuesRangeScaling"] = scaling
	}
	nonNeg := bounding == "non-negative" || bounding == "both"
	if nonNeg {
		props["disallowNegativeValues"] = true
	}
	var bp model.BiasProps = props
	bias := NewFatigue(rt.Generators, rt.Generators, []FatigueFunction{&ExponentialFromZeroFatigue{}, &ConstFatigueFunction{}})
	// the original parameters differ from the current ones in values, criteria and method parameters (as after an
	// earlier omission): nothing of them may be used or handed on
	origCrit := append(append(model.Criteria{}, crit...), model.Criterion{Id: "dropped-earlier", Type: model.Gain})
	original := vh.Params(vh.Alternatives("orig.", vh.AltIds[:A], origCrit), chose, origCrit, &struct{ X int }{8})
	res := bias.Apply(original, current, &bp, nil)
	rep := res.Props.(FatigueResult)
	rt.Assert("C17.report-carries-ratio", rep.EffectiveFatigueRatio == f)
	rt.Assert("C17.report-is-the-state-handed-on", rt.DeepEqual(rep.ConsideredAlternatives, res.DMP.ConsideredAlternatives) && rt.DeepEqual(rep.NotConsideredAlternatives, res.DMP.NotConsideredAlternatives))
	rt.Assert("C17.criteria-untouched", rt.DeepEqual(res.DMP.Criteria, current.Criteria))
	rt.Assert("C17.method-parameters-untouched", res.DMP.MethodParameters == interface{}(methodParams))
	rt.Assert("C17.split-unchanged", len(res.DMP.ConsideredAlternatives) == len(chose) && len(res.DMP.NotConsideredAlternatives) == A-len(chose))
	// the draws: considered alternatives first, then the others, criteria in declaration order
	gen := rt.Generators(31)
	order := append(append([]model.AlternativeWithCriteria{}, current.ConsideredAlternatives...), current.NotConsideredAlternatives...)
	after := append(append([]model.AlternativeWithCriteria{}, res.DMP.ConsideredAlternatives...), res.DMP.NotConsideredAlternatives...)
	rt.Assert("C17.every-known-alternative-covered", len(after) == A)
	for i, a := range order {
		if i >= len(after) {
			break
		}
		rt.Assert("C17.same-alternative", after[i].Id == a.Id)
		rt.Assert("C17.values-for-exactly-the-criteria", len(after[i].Criteria) == K)
		for ci := range crit {
			c := crit[ci]
			v := a.Criteria[c.Id]
			u := gen()
			first := i == 0 && ci == 0
			// sign -1 iff the sign stream's draw is >= 0.5 (no forking: if-then-else terms; reachability is witnessed on the first value)
			sign := rt.IteF(u >= 0.5, -1, 1)
			if first {
				if rt.Branch(u >= 0.5) {
					rt.Reach("minus")
				} else {
					rt.Reach("plus")
				}
			}
			moved := v + sign*u*f*v
			got := after[i].Criteria[c.Id]
			if bounding == "off" {
				rt.Assert("C17.moved-value", got == moved)
				rt.Assert("C17.moves-at-most-by-ratio", c17abs(got-v) <= c17abs(f*v))
				rt.Assert("C17.zero-ratio-is-identity", rt.Implies(f == 0, got == v))
				continue
			}
			// bounding: raise to 0 first, then clip into the range scaled about its centre
			exp := moved
			if nonNeg {
				if first && rt.Branch(exp < 0) {
					rt.Reach("raised-to-zero")
				}
				exp = rt.IteF(exp < 0, 0, exp)
			}
			if scaling > 0 {
				mn, mx := vh.RangeOf(&c, known)
				centre, half := (mn+mx)/2, (mx-mn)/2
				lo, hi := centre-scaling*half, centre+scaling*half
				if first {
					if rt.Branch(exp < lo) {
						rt.Reach("clipped-low")
					} else if rt.Branch(exp > hi) {
						rt.Reach("clipped-high")
					}
				}
				exp = rt.IteF(exp < lo, lo, exp)
				exp = rt.IteF(exp > hi, hi, exp)
			}
			rt.Assert("C17.bounded-value", got == exp)
		}
	}
}
