#!/usr/bin/env python3
"""Regenerates /verif/MANIFEST.json from tools/claims.json (per-property texts) and properties.jsonl."""
import json, os
root = os.path.dirname(os.path.dirname(os.path.abspath(__file__)))
props = [json.loads(l) for l in open(os.path.join(root, 'properties.jsonl'))]
claims = json.load(open(os.path.join(root, 'tools', 'claims.json')))
TECH = "bounded symbolic execution of the go/ssa form of the real code (own engine gosym); SMT (z3 5.1.0, cross-checked with z3 4.8.12 and cvc5) decides every path obligation; counterexamples are replayed on the native build"
NOTE = " Trusted: go/ssa lowering; the engine's SSA semantics and its models of mapstructure/sort/math/fmt/rand (validated on every run by sampled concrete vectors executed by the engine and by the native build); the SMT solvers. Bounds and what lies outside them are listed in the evidence file (coverage.bounds)."
checks, na = [], []
for p in props:
    c = claims.get(p['id'])
    if c and c.get('claimed'):
        checks.append({
            "property_id": p['id'],
            "quick_cmd": "./check %s --tier quick" % p['id'],
            "thorough_cmd": "./check %s --tier thorough" % p['id'],
            "evidence_file": "/verif/evidence/%s.json" % p['id'],
            "replay_cmd_template": "./check --replay {path}",
            "engine": "gosym",
            "level_claimed": {"category": "model_checking", "text": c['text'], "design_ref": "DESIGN.md §5 " + p['id']},
            "level_note": c['note'] + NOTE,
            "technique": c.get('technique', TECH)})
    else:
        na.append({"property_id": p['id'], "reason": (c or {}).get('reason', "check not built yet (in progress; see DESIGN.md §5 for the plan)")})
m = {"version": 1,
     "setup_cmd": "cd /verif/engine && GOFLAGS=-mod=mod GOPROXY=off GOSUMDB=off GOTOOLCHAIN=local go build -o ../bin/gosym ./cmd/gosym",
     "hooks": {"guard": "verif",
               "enable": "no source hooks in /repo: harness files (//go:build verif) are injected into the package directories with go/packages Overlay (symbolic run) and `go test -tags verif -overlay` (native replay)",
               "baseline_off_cmd": "for m in lib httpClient; do (cd /repo/$m && GOFLAGS=-mod=mod go test -vet=off -count=1 ./...) || exit 1; done",
               "source_commits": [], "add_only": True},
     "engines": [{"name": "gosym", "path": "/verif/engine", "serves_properties": [c['property_id'] for c in checks],
                  "kind_free_text": "own go/ssa symbolic executor (shape-concrete, value-symbolic, if-conversion of pure regions, decision-log re-execution) emitting SMT-LIB2 to z3 5.1.0; obligations cross-checked with z3 4.8.12 and cvc5 1.0; native replay through go test -overlay"}],
     "checks": checks,
     "notes": "Exit codes of ./check: 0 = all obligations discharged within the registered bounds (KNOWN-FINDING lines possible), 1 = VIOLATION (replayed natively), 2 = inconclusive (solver unknown, bound hit, vacuity label unreached, translator mismatch, unreproduced counterexample); 2 never prints a VIOLATION line.",
     "not_applicable": na}
json.dump(m, open(os.path.join(root, 'MANIFEST.json'), 'w'), indent=1)
print("claimed:", [c['property_id'] for c in checks])
