//go:build verif

//verif:dir logic/limited-rationality/satisfaction
package satisfaction

import (
	sl "github.com/Azbesciak/RealDecisionMaker/lib/logic/limited-rationality/satisfaction-levels"
	"github.com/Azbesciak/RealDecisionMaker/lib/model"
	"github.com/Azbesciak/RealDecisionMaker/lib/utils"
	vh "github.com/Azbesciak/RealDecisionMaker/lib/zz_vh"
	rt "github.com/Azbesciak/RealDecisionMaker/lib/zz_verifrt"
)

// Request builder shared by the satisfaction harnesses (C01, C13).

var c13sources = []sl.SatisfactionLevelsSource{&sl.IdealDecreasingMulCoefficientSatisfaction, &sl.IdealSubtrCoefficientSatisfaction, &sl.DecreasingThresholds}

type c13setup struct {
	known  []model.AlternativeWithCriteria
	chose  []string
	crit   model.Criteria
	params SatisfactionParameters
	dmp    *model.DecisionMakingParams
	levels []model.Weights
	order  []string
	expectedIds []string
	ccConsidered bool
}

func c13build(maxA, maxK, maxL int, shuffle bool) *c13setup {
	A := rt.IntRange("A", 1, maxA)
	K := rt.IntRange("K", 1, maxK)
	crit := vh.Criteria(1, "")
	if rt.Bool("declared-range") {
		lo, hi := rt.Float("range.lo"), rt.Float("range.hi")
		rt.Assume(lo < hi)
		crit[0].ValuesRange = &utils.ValueRange{Min: lo, Max: hi}
	}
	for i := 1; i < K; i++ {
		t := model.Cost
		if i%2 == 0 {
			t = model.Gain
		}
		crit = append(crit, model.Criterion{Id: vh.CritIds[i], Type: t})
	}
	known := vh.Alternatives("", vh.AltIds[:A], crit)
	cc := rt.OneOf("currentChoice", "none", "first-considered", "last-considered", "not-considered")
	considered := A
	if cc == "not-considered" || (A > 1 && rt.Bool("leave-last-unconsidered")) {
		considered = A - 1
	}
	rt.Assume(considered >= 1)
	chose := []string{}
	for i := considered - 1; i >= 0; i-- {
		chose = append(chose, vh.AltIds[i])
	}
	cur := ""
	switch cc {
	case "first-considered":
		cur = chose[0]
	case "last-considered":
		cur = chose[len(chose)-1]
	case "not-considered":
		cur = vh.AltIds[A-1]
	}
	s := &c13setup{known: known, chose: chose, crit: crit}
	fn := rt.OneOf("levels", "thresholds", "idealMultipliedCoefficient", "idealSubtractiveCoefficient")
	var p interface{}
	switch fn {
	case "thresholds":
		L := rt.IntRange("L", 0, maxL)
		p = vh.JSONThresholds("t", L, crit)
	case "idealMultipliedCoefficient":
		p = vh.JSONCoefficient(0.5, 0.25, 1)
	default:
		p = vh.JSONCoefficient(0.5, 0.25, 0.75)
	}
	s.params = SatisfactionParameters{Function: fn, Params: p, RandomSeed: 5, CurrentChoice: cur, RandomAlternativesOrdering: shuffle}
	s.dmp = vh.Params(known, chose, crit, s.params)
	src := sl.Find(fn, p, c13sources)
	src.Initialize(s.dmp)
	for src.HasNext() {
		s.levels = append(s.levels, src.Next())
		if len(s.levels) > 8 {
			panic("series longer than the harness bound")
		}
	}
	if cur != "" {
		s.order = append(s.order, cur)
		s.ccConsidered = vh.Contains(chose, cur)
	}
	for _, id := range chose {
		if id != cur {
			s.order = append(s.order, id)
		}
	}
	s.expectedIds = append([]string{}, s.order...)
	return s
}

