//go:build verif

//verif:dir logic/limited-rationality/aspect-elimination
package aspect_elimination

import (
	vh "github.com/Azbesciak/RealDecisionMaker/lib/zz_vh"
	rt "github.com/Azbesciak/RealDecisionMaker/lib/zz_verifrt"
)

//verif:bounds C01 HC01_aspect: A<=4 considered alternatives, K<=2 / K<=3 criteria whose weights may tie (the tie is broken by a symbolic seeded draw), <=2 explicit levels or generated series, fixed and seeded-random order

//verif:harness HC01_aspect mode=REAL reach=weight-tie,shuffled
func HC01_aspect() {
	shuffle := rt.Bool("shuffle")
	s := c12buildOpt(4, rt.Pick(2, 3), 2, shuffle, false)
	h := NewAspectEliminationHeuristic(c12sources, rt.Generators)
	r := h.Evaluate(s.dmp)
	vh.WellFormed("C01.aspect", r, s.chose)
	if shuffle {
		rt.Reach("shuffled")
	}
	if len(s.crit) >= 2 && s.params.Weights[s.crit[0].Id] == s.params.Weights[s.crit[1].Id] {
		rt.Reach("weight-tie")
	}
}
