//go:build verif

//verif:dir logic/limited-rationality/majority
package majority

import (
	"github.com/Azbesciak/RealDecisionMaker/lib/model"
	vh "github.com/Azbesciak/RealDecisionMaker/lib/zz_vh"
	rt "github.com/Azbesciak/RealDecisionMaker/lib/zz_verifrt"
)

// Request builders and order-independent clauses shared by the majority harnesses (C01, C11).

var c11policies = []string{"allow", "current", "newer", "random"}

func c11majority() *Majority {
	return NewMajority(rt.Generators, []DrawResolver{&DrawAllowedResolver{}, &CurrentIsWinnerDrawResolver{}, &NewerIsWinnerResolver{}, &RandomWinnerResolver{}})
}

// reference scoring: total weight of the criteria on which the first is strictly better (eps 1e-6)
func c11score(crit model.Criteria, w model.Weights, x, y *model.AlternativeWithCriteria) float64 {
	s := 0.0
	for i := range crit {
		c := crit[i]
		vx, vy := x.Criteria[c.Id], y.Criteria[c.Id]
		if c.Type == model.Cost {
			vx, vy = -vx, -vy
		}
		if vx-vy > 1e-6 {
			s += w[c.Id]
		}
	}
	return s
}

type c11info struct {
	id, opp      string
	own, oppScore float64
	group        int
}

type c11setup struct {
	known  []model.AlternativeWithCriteria
	chose  []string
	crit   model.Criteria
	params MajorityHeuristicParams
	order  []string // expected search order (fixed order only)
	expectedIds []string
}

func c11build(maxA, maxK int, shuffle bool) *c11setup {
	A := rt.IntRange("A", 2, maxA)
	K := maxK
	if rt.Thorough() {
		K = rt.IntRange("K", 1, maxK)
	}
	// the first criterion is gain or cost (a harness choice); the others alternate cost/gain
	crit := vh.Criteria(1, "")
	for i := 1; i < K; i++ {
		t := model.Cost
		if i%2 == 0 {
			t = model.Gain
		}
		crit = append(crit, model.Criterion{Id: vh.CritIds[i], Type: t})
	}
	known := vh.Alternatives("", vh.AltIds[:A], crit)
	cc := rt.OneOf("currentChoice", "none", "first-considered", "last-considered", "not-considered")
	considered := A
	if cc == "not-considered" || (rt.Thorough() && rt.Bool("leave-last-unconsidered")) {
		considered = A - 1
	}
	// listed order differs from known order: considered ids are taken back to front
	chose := []string{}
	for i := considered - 1; i >= 0; i-- {
		chose = append(chose, vh.AltIds[i])
	}
	cur := ""
	switch cc {
	case "first-considered":
		cur = chose[0]
	case "last-considered":
		cur = chose[len(chose)-1]
	case "not-considered":
		rt.Assume(considered < A)
		cur = vh.AltIds[A-1]
	}
	s := &c11setup{known: known, chose: chose, crit: crit}
	s.params = MajorityHeuristicParams{Weights: vh.Weights("w.", crit, 0, 4), CurrentChoice: cur, RandomSeed: 7,
		RandomAlternativesOrdering: shuffle, DrawResolution: rt.OneOf("policy", c11policies...)}
	if cur != "" {
		s.order = append(s.order, cur)
	}
	for _, id := range chose {
		if id != cur {
			s.order = append(s.order, id)
		}
	}
	s.expectedIds = append([]string{}, chose...)
	if cur != "" && !vh.Contains(chose, cur) {
		s.expectedIds = append(s.expectedIds, cur)
	}
	return s
}

func c11alt(known []model.AlternativeWithCriteria, id string) *model.AlternativeWithCriteria {
	for i := range known {
		if known[i].Id == id {
			return &known[i]
		}
	}
	panic("unknown alternative " + id)
}

// c11entryClauses asserts the per-entry clauses of the statement that do not depend on the search order.
func c11entryClauses(tag string, s *c11setup, r *model.AlternativesRanking) {
	undefeated := 0
	for i := range *r {
		e := (*r)[i]
		ev := e.Evaluation.(MajorityEvaluation)
		if ev.ComparedWith == "" {
			undefeated++
			rt.Assert(tag+".undefeated-first", i == 0 || vh.Contains((*r)[0].BetterThanOrSameAs, e.Alternative.Id) && vh.Contains(e.BetterThanOrSameAs, (*r)[0].Alternative.Id))
			continue
		}
		oi := vh.IndexOf(r, ev.ComparedWith)
		rt.Assert(tag+".opponent-in-result", oi >= 0)
		if oi < 0 {
			continue
		}
		me, opp := c11alt(s.known, e.Alternative.Id), c11alt(s.known, ev.ComparedWith)
		rt.Assert(tag+".own-score", ev.Value == c11score(s.crit, s.params.Weights, me, opp))
		rt.Assert(tag+".opponent-score", ev.ComparedAlternativeValue == c11score(s.crit, s.params.Weights, opp, me))
		rt.Assert(tag+".not-higher-than-opponent", ev.Value <= ev.ComparedAlternativeValue+1e-6)
		sameGroup := vh.Contains(e.BetterThanOrSameAs, ev.ComparedWith) && vh.Contains((*r)[oi].BetterThanOrSameAs, e.Alternative.Id)
		if s.params.DrawResolution == "allow" {
			rt.Assert(tag+".below-or-tied-with-opponent", oi < i || sameGroup)
		} else {
			rt.Assert(tag+".below-opponent", oi < i && !sameGroup)
		}
		// the opponent is reachable from... the opponent ranks at least as high: this entry is reachable from it
		rt.Assert(tag+".reachable-from-opponent", vh.Contains(vh.Reachable(r, ev.ComparedWith), e.Alternative.Id))
	}
	rt.Assert(tag+".one-undefeated", undefeated == 1)
}

