//go:build verif

// Package verifrt is the harness API of the /verif machinery. The symbolic executor
// (gosym) intercepts calls to the functions below by name; this file is their native
// implementation, used when a counterexample is replayed against the real build
// (values come from the JSON file named by $VERIF_REPLAY).
package verifrt

import (
	"encoding/json"
	"fmt"
	"math"
	"math/rand"
	"os"
	"reflect"
	"sort"
	"strconv"
	"strings"
)

type replayFile struct {
	Harness string                 `json:"harness"`
	Tier    string                 `json:"tier"`
	Values  map[string]interface{} `json:"values"`
}

var rf *replayFile
var failed []string
var reached = map[string]bool{}
var observations []string

func load() *replayFile {
	if rf != nil {
		return rf
	}
	rf = &replayFile{Values: map[string]interface{}{}, Tier: "quick"}
	if p := os.Getenv("VERIF_REPLAY"); p != "" {
		b, err := os.ReadFile(p)
		if err != nil {
			panic(err)
		}
		if err := json.Unmarshal(b, rf); err != nil {
			panic(err)
		}
	}
	return rf
}

// SetValues installs replay values programmatically (used by the replay driver for batches).
func SetValues(harness, tier string, values map[string]interface{}) {
	drawMode = 0
	symSeeds = map[int64]bool{}
	rf = &replayFile{Harness: harness, Tier: tier, Values: values}
	failed = nil
	reached = map[string]bool{}
	observations = nil
}

type skipRun struct{ why string }

func floatOf(name string, def float64) float64 {
	v, ok := load().Values[name]
	if !ok {
		return def
	}
	switch x := v.(type) {
	case float64:
		return x
	case string:
		if strings.HasPrefix(x, "0x") {
			u, err := strconv.ParseUint(x[2:], 16, 64)
			if err != nil {
				panic(err)
			}
			return math.Float64frombits(u)
		}
		f, err := strconv.ParseFloat(x, 64)
		if err != nil {
			panic(err)
		}
		return f
	case map[string]interface{}:
		if s, ok := x["f64"].(string); ok {
			u, err := strconv.ParseUint(strings.TrimPrefix(s, "0x"), 16, 64)
			if err != nil {
				panic(err)
			}
			return math.Float64frombits(u)
		}
	}
	panic(fmt.Sprintf("verifrt: bad value for %s: %v", name, v))
}

func Float(name string) float64 { return floatOf(name, 0) }

func FloatIn(name string, lo, hi float64) float64 {
	f := floatOf(name, lo)
	if !(f >= lo && f <= hi) {
		panic(skipRun{fmt.Sprintf("%s=%v outside [%v,%v]", name, f, lo, hi)})
	}
	return f
}

func SymBool(name string) bool { return Bool(name) }

func Bool(name string) bool {
	v, ok := load().Values[name]
	if !ok {
		return false
	}
	return v.(bool)
}

func IntRange(name string, lo, hi int) int {
	v, ok := load().Values[name]
	if !ok {
		return lo
	}
	k := int(v.(float64))
	if k < lo || k > hi {
		panic(skipRun{fmt.Sprintf("%s=%d outside [%d,%d]", name, k, lo, hi)})
	}
	return k
}

func OneOf(name string, choices ...string) string {
	v, ok := load().Values[name]
	if !ok {
		return choices[0]
	}
	s := v.(string)
	for _, c := range choices {
		if c == s {
			return s
		}
	}
	panic(skipRun{fmt.Sprintf("%s=%q is not a choice", name, s)})
}

func Assume(cond bool) {
	if !cond {
		panic(skipRun{"assumption false"})
	}
}

func Assert(id string, cond bool) {
	if !cond {
		failed = append(failed, id)
	}
}

func Reach(label string) { reached[label] = true }

func KnownFinding(id string, region bool) {
	if region {
		reached["KF:"+id] = true
	}
}

func And(a, b bool) bool     { return a && b }
func Or(a, b bool) bool      { return a || b }
func Not(a bool) bool        { return !a }
func Implies(a, b bool) bool { return !a || b }
func Iff(a, b bool) bool     { return a == b }
func IteF(c bool, a, b float64) float64 {
	if c {
		return a
	}
	return b
}

// Branch makes the symbolic executor fork on (or look up) the condition instead of folding it
// into an if-then-else term; natively it is the identity.
func Branch(c bool) bool { return c }

func Tier() string   { return load().Tier }
func Thorough() bool { return load().Tier == "thorough" }
func Pick(quick, thorough int) int {
	if Thorough() {
		return thorough
	}
	return quick
}

// RaceMode reports whether this is the native confirmation run under the race detector
// ($VERIF_RACE set by the replay driver); always false inside the engine.
func RaceMode() bool { return os.Getenv("VERIF_RACE") != "" }

// Symbolic reports whether the harness runs inside the symbolic executor.
func Symbolic() bool { return false }

// Generators is the nondeterministic SeededValueGenerator: the k-th draw of any generator
// created with seed s is the replay value "draw[s][k]" (0 when the model does not mention it).
var drawMode int

// SetDrawMode(0) makes every seeded draw a free value in [0,1) (the default); k >= 1 selects a
// fixed deterministic draw pattern instead (used where products of draws would make the
// arithmetic intractable and only the structure of the computation matters).
func SetDrawMode(k int) { drawMode = k }

var symSeeds = map[int64]bool{}

// SymbolicSeed keeps the draws of generators created with this seed free values even under a
// fixed draw pattern (e.g. the shuffle of one bias explored exhaustively, everything else fixed).
func SymbolicSeed(seed int64) { symSeeds[seed] = true }

func concreteDraw(mode int, seed int64, k int) float64 {
	if mode == 1 {
		return float64((seed*7+int64(k)*13)%8) / 8
	}
	return float64((seed*3+int64(k)*5+4)%8) / 8
}

func Generators(seed int64) func() float64 {
	k := 0
	var real *rand.Rand
	return func() float64 {
		if drawMode < 0 {
			// the real PRNG (only used to run the repository's own example requests in both worlds)
			if real == nil {
				real = rand.New(rand.NewSource(seed))
			}
			return real.Float64()
		}
		if drawMode > 0 && !symSeeds[seed] {
			k++
			return concreteDraw(drawMode, seed, k-1)
		}
		name := fmt.Sprintf("draw[%d][%d]", seed, k)
		k++
		f := floatOf(name, 0)
		if !(f >= 0 && f < 1) {
			panic(skipRun{fmt.Sprintf("%s=%v is not a draw", name, f)})
		}
		return f
	}
}

func MapOrder(k int)      {}
func Epoch()              {}
func SharedWrites() int   { return 0 }
func OwnedWrites() int    { return 0 }
func Own(x interface{})   {}
func Note(x interface{})  {}
func Caps(x interface{}) int {
	v := reflect.ValueOf(x)
	if v.Kind() == reflect.Slice {
		return v.Cap()
	}
	return 0
}

// Snap is a deep rendering of a value graph at one moment.
type Snap struct{ s string }

func Snapshot(x interface{}) Snap { return Snap{render(reflect.ValueOf(x), 0)} }

func Same(s Snap, x interface{}) bool { return s.s == render(reflect.ValueOf(x), 0) }

func DeepEqual(a, b interface{}) bool {
	return render(reflect.ValueOf(a), 0) == render(reflect.ValueOf(b), 0)
}

func render(v reflect.Value, depth int) string {
	if depth > 40 {
		return "…"
	}
	if !v.IsValid() {
		return "nil"
	}
	switch v.Kind() {
	case reflect.Float64, reflect.Float32:
		f := v.Float()
		if f == 0 {
			f = 0 // -0 == +0
		}
		if math.IsNaN(f) {
			return "NaN"
		}
		return fmt.Sprintf("f%016x", math.Float64bits(f))
	case reflect.Bool:
		return fmt.Sprint(v.Bool())
	case reflect.Int, reflect.Int8, reflect.Int16, reflect.Int32, reflect.Int64:
		return fmt.Sprint(v.Int())
	case reflect.Uint, reflect.Uint8, reflect.Uint16, reflect.Uint32, reflect.Uint64:
		return fmt.Sprint(v.Uint())
	case reflect.String:
		return strconv.Quote(v.String())
	case reflect.Ptr:
		if v.IsNil() {
			return "nil"
		}
		return "&" + render(v.Elem(), depth+1)
	case reflect.Interface:
		if v.IsNil() {
			return "nil"
		}
		return v.Elem().Type().String() + ":" + render(v.Elem(), depth+1)
	case reflect.Slice:
		if v.IsNil() {
			return "nilslice"
		}
		fallthrough
	case reflect.Array:
		p := make([]string, v.Len())
		for i := range p {
			p[i] = render(v.Index(i), depth+1)
		}
		return "[" + strings.Join(p, ",") + "]"
	case reflect.Map:
		if v.IsNil() {
			return "nilmap"
		}
		var p []string
		for _, k := range v.MapKeys() {
			p = append(p, render(k, depth+1)+":"+render(v.MapIndex(k), depth+1))
		}
		sort.Strings(p)
		return "map{" + strings.Join(p, ",") + "}"
	case reflect.Struct:
		p := make([]string, v.NumField())
		for i := range p {
			p[i] = render(v.Field(i), depth+1)
		}
		return "{" + strings.Join(p, ",") + "}"
	case reflect.Func:
		if v.IsNil() {
			return "nilfunc"
		}
		return "func"
	}
	return v.Kind().String()
}

// Panics runs f and reports whether it panicked (plain Go; executed symbolically as is).
func Panics(f func()) (panicked bool) {
	defer func() {
		if r := recover(); r != nil {
			panicked = true
		}
	}()
	f()
	return false
}

// RunNative executes one harness natively and prints the outcome in a line-oriented format
// that the replay driver parses.
func RunNative(name string, h func()) {
	failed = nil
	reached = map[string]bool{}
	outcome := "returned"
	detail := ""
	func() {
		defer func() {
			if r := recover(); r != nil {
				if s, ok := r.(skipRun); ok {
					outcome = "skipped"
					detail = s.why
					return
				}
				outcome = "panicked"
				detail = fmt.Sprint(r)
			}
		}()
		h()
	}()
	fmt.Printf("VERIF-OUTCOME harness=%s outcome=%s detail=%q\n", name, outcome, detail)
	for _, f := range failed {
		fmt.Printf("VERIF-ASSERT-FAILED harness=%s id=%s\n", name, f)
	}
	var ls []string
	for l := range reached {
		ls = append(ls, l)
	}
	sort.Strings(ls)
	fmt.Printf("VERIF-REACHED harness=%s labels=%s\n", name, strings.Join(ls, ","))
}

// Selected reports whether the replay file addresses the named harness.
func Selected(name string) bool { return load().Harness == name }

// Observe exposes a computed value to translator validation (compared bit for bit between
// the engine's concrete run and the native run); it has no effect on symbolic runs.
func Observe(name string, v float64) {
	if v == 0 {
		v = 0
	}
	observations = append(observations, fmt.Sprintf("%s=%016x", name, math.Float64bits(v)))
}

func ObserveS(name string, v string) {
	observations = append(observations, fmt.Sprintf("%s=%s", name, v))
}

type batchFile struct {
	Harness string `json:"harness"`
	Tier    string `json:"tier"`
	Vectors []struct {
		Values map[string]interface{} `json:"values"`
	} `json:"vectors"`
}

// Main is called by the generated replay test: it runs either the single replay named by
// $VERIF_REPLAY or the batch of validation vectors named by $VERIF_BATCH.
func Main(harnesses map[string]func()) {
	if p := os.Getenv("VERIF_BATCH"); p != "" {
		b, err := os.ReadFile(p)
		if err != nil {
			panic(err)
		}
		var bf batchFile
		if err := json.Unmarshal(b, &bf); err != nil {
			panic(err)
		}
		h, ok := harnesses[bf.Harness]
		if !ok {
			panic("unknown harness " + bf.Harness)
		}
		for i, v := range bf.Vectors {
			SetValues(bf.Harness, bf.Tier, v.Values)
			outcome := "returned"
			func() {
				defer func() {
					if r := recover(); r != nil {
						if _, ok := r.(skipRun); ok {
							outcome = "skipped"
							return
						}
						outcome = "panicked"
					}
				}()
				h()
			}()
			if outcome == "skipped" {
				fmt.Printf("VERIF-VECTOR %d outcome=skipped\n", i)
				continue
			}
			sort.Strings(failed)
			var ls []string
			for l := range reached {
				ls = append(ls, l)
			}
			sort.Strings(ls)
			fmt.Printf("VERIF-VECTOR %d outcome=%s failed=%s reached=%s obs=%s\n", i, outcome, strings.Join(failed, ","), strings.Join(ls, ","), strings.Join(observations, ";"))
		}
		return
	}
	name := load().Harness
	h, ok := harnesses[name]
	if !ok {
		panic("unknown harness " + name)
	}
	RunNative(name, h)
}
