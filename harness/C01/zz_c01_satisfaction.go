//go:build verif

//verif:dir logic/limited-rationality/satisfaction
package satisfaction

import (
	vh "github.com/Azbesciak/RealDecisionMaker/lib/zz_vh"
	rt "github.com/Azbesciak/RealDecisionMaker/lib/zz_verifrt"
)

//verif:bounds C01 HC01_satisfaction: A<=3 (quick) / A<=4 (thorough) known alternatives, K<=2, currentChoice absent / first / last considered / known-not-considered, explicit levels (0..2 / 0..3) or generated series, fixed and seeded-random order

//verif:harness HC01_satisfaction mode=REAL reach=cc-considered,shuffled
func HC01_satisfaction() {
	shuffle := rt.Bool("shuffle")
	s := c13build(rt.Pick(3, 4), 2, rt.Pick(2, 3), shuffle)
	h := NewSatisfaction(rt.Generators, c13sources)
	r := h.Evaluate(s.dmp)
	vh.WellFormed("C01.satisfaction", r, s.expectedIds)
	if s.ccConsidered {
		rt.Reach("cc-considered")
	}
	if shuffle {
		rt.Reach("shuffled")
	}
}
