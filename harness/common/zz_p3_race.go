//go:build verif

//verif:dir zz_pipeline
package zz_pipeline

import (
	"sync"

	"github.com/Azbesciak/RealDecisionMaker/lib/model"
	rt "github.com/Azbesciak/RealDecisionMaker/lib/zz_verifrt"
)

// RaceRun is the native confirmation run (never executed symbolically): the given requests are decided
// from 8 goroutines against the one shared set of registries, under the race detector; responses of
// requests of kind 0 are compared with the sequential outcome. With sequential == nil the concurrent phase
// is the first use of the registries in the process (lazily filled shared state - a cache populated on
// first use - is then raced on, not found already filled) and the sequential outcome is computed afterwards.
func RaceRun(build func(kind int) *model.DecisionMaker, kinds int, sequential *Outcome) {
	var wg sync.WaitGroup
	var mu sync.Mutex
	same := true
	const per = 40
	type result struct {
		choice   *model.DecisionMakerChoice
		panicked bool
	}
	var first []result
	reqs := make([]*model.DecisionMaker, 8*per)
	for i := range reqs {
		reqs[i] = build(i % kinds)
	}
	for g := 0; g < 8; g++ {
		wg.Add(1)
		go func(g int) {
			defer wg.Done()
			for i := 0; i < per; i++ {
				idx := g*per + i
				dm := reqs[idx]
				var choice *model.DecisionMakerChoice
				panicked := false
				func() {
					defer func() {
						if e := recover(); e != nil {
							panicked = true
						}
					}()
					choice = dm.MakeDecision(funcs, biasListeners, &biases, rt.Generators)
				}()
				if idx%kinds != 0 {
					continue
				}
				if sequential == nil {
					mu.Lock()
					first = append(first, result{choice, panicked})
					mu.Unlock()
					continue
				}
				ok := panicked == sequential.Panicked
				if ok && !panicked {
					ok = rt.DeepEqual(choice, sequential.Choice)
				}
				if !ok {
					mu.Lock()
					same = false
					mu.Unlock()
				}
			}
		}(g)
	}
	wg.Wait()
	if sequential == nil {
		seq := Decide(build(0))
		for _, r := range first {
			if r.panicked != seq.Panicked || (!r.panicked && !rt.DeepEqual(r.choice, seq.Choice)) {
				same = false
			}
		}
	}
	rt.Assert("concurrent-equals-sequential", same)
}
