package sym

import (
	"fmt"
	"math"
	"math/big"
	"sort"
	"time"

	"gosym/smt"
)

// A Decision is one nondeterministic choice on a path: a symbolic branch outcome, the
// concrete value chosen for an integer computed from floats, or a harness-level choice.
type Decision struct {
	Kind byte // 'b' branch, 'i' int value, 'c' choice
	V    int64
}

type Violation struct {
	Assert   string
	KF       string // known-finding id the model lies in ("" = not listed)
	Model    map[string]interface{}
	Decisions []Decision
	Note     string
	PathID   int
	PCSize   int
}

type Obligation struct {
	ID      string
	Verdict string // "unsat" (discharged), "sat", "unknown", "concrete-true", "concrete-false"
	PCSize  int
	Ms      float64
	Cond    string
}

type PathState struct {
	Prefix []Decision
	Trace  []Decision
	Pending [][]Decision
	PendingModels []smt.Model
	StartModel smt.Model
	model   smt.Model // a model of the current path condition, if known
	hints   map[string]float64
	ModelHits int
	PC     []*smt.Term
	pcTrue  map[int]bool
	pcFalse map[int]bool

	Choices  map[string]interface{} // harness choices by name (for replay)
	InputVars []*smt.Term
	Reached  map[string]bool
	Obligations []Obligation
	Violations  []Violation
	KFSeen   map[string]Violation
	kfActive []kfRegion
	Unknowns int // feasibility queries answered unknown (branch kept)
	ObUnknown int
	Forks    int
	Merged   int
	QueryMs  float64
	End      string
	EndDetail string
	ID       int
	KnownKF  map[string]bool
	TimeoutFeas int
	TimeoutOb   int
	Scripts  []string // obligations as self-contained scripts for cross-checking
	KeepScripts bool
	Notes    []string
}

type kfRegion struct {
	id   string
	cond Value
}

func NewPathState(prefix []Decision, known map[string]bool) *PathState {
	return &PathState{Prefix: prefix, pcTrue: map[int]bool{}, pcFalse: map[int]bool{}, Choices: map[string]interface{}{},
		Reached: map[string]bool{}, KFSeen: map[string]Violation{}, KnownKF: known, TimeoutFeas: 5000, TimeoutOb: 60000}
}

func (p *PathState) fresh() bool { return len(p.Trace) >= len(p.Prefix) }

func (p *PathState) addPC(in *Interp, t *smt.Term) {
	if t.Op == smt.OConstB {
		return
	}
	if p.pcTrue[t.ID] {
		return
	}
	if p.model != nil {
		if v, ok := p.evalModel(in, t); !ok || !v {
			p.model = nil
		}
	}
	p.PC = append(p.PC, t)
	p.pcTrue[t.ID] = true
	if t.Op == smt.ONot {
		p.pcFalse[t.Args[0].ID] = true
	} else if t.Op == smt.OAnd {
		// record conjuncts for lookup
		for _, a := range t.Args {
			p.pcTrue[a.ID] = true
			if a.Op == smt.ONot {
				p.pcFalse[a.Args[0].ID] = true
			}
		}
	}
	in.S.Assert(t)
}

// known returns (value, true) if the condition is decided syntactically by the path condition.
func (p *PathState) known(t *smt.Term) (bool, bool) {
	if t.Op == smt.OConstB {
		return t.B, true
	}
	if p.pcTrue[t.ID] {
		return true, true
	}
	if p.pcFalse[t.ID] {
		return false, true
	}
	if t.Op == smt.ONot {
		if v, ok := p.known(t.Args[0]); ok {
			return !v, true
		}
	}
	return false, false
}

func (p *PathState) schedule(d Decision) { p.scheduleM(d, nil) }

func (p *PathState) scheduleM(d Decision, m smt.Model) {
	n := make([]Decision, len(p.Trace)+1)
	copy(n, p.Trace)
	n[len(p.Trace)] = d
	p.Pending = append(p.Pending, n)
	p.PendingModels = append(p.PendingModels, m)
	p.Forks++
}

// evalModel evaluates a condition under the current model of the path condition (exactly).
func (p *PathState) evalModel(in *Interp, t *smt.Term) (bool, bool) {
	if p.model == nil || in.C.Mode != smt.REAL {
		return false, false
	}
	_, b, ok := in.C.EvalExact(t, func(n string) (*big.Rat, bool) {
		if mv, ok := p.model[n]; ok {
			if mv.R == nil || mv.Inexact {
				return nil, false
			}
			return mv.R, true
		}
		r := new(big.Rat)
		if h, ok := p.hints[n]; ok {
			r.SetFloat64(h)
		}
		return r, true
	}, func(n string) (bool, bool) {
		if mv, ok := p.model[n]; ok {
			return mv.B, true
		}
		return false, true
	})
	return b, ok
}

func (p *PathState) Hint(name string, v float64) {
	if p.hints == nil {
		p.hints = map[string]float64{}
	}
	p.hints[name] = v
}

func b2i(b bool) int64 {
	if b {
		return 1
	}
	return 0
}

// DecideBool resolves a symbolic condition on this path.
func (p *PathState) DecideBool(in *Interp, c *smt.Term, why string) bool {
	if v, ok := p.known(c); ok {
		return v
	}
	if in.spec != nil {
		panic(specAbort{})
	}
	if !p.fresh() {
		d := p.Prefix[len(p.Trace)]
		if d.Kind != 'b' {
			panic(fmt.Sprintf("engine: decision log out of sync at %d: want branch, have %c (%s)", len(p.Trace), d.Kind, why))
		}
		p.Trace = append(p.Trace, d)
		cc := c
		if d.V != 1 {
			cc = in.C.Not(c)
		}
		p.addPC(in, cc)
		if p.fresh() && p.StartModel != nil {
			p.model = p.StartModel
			if v, ok := p.evalModel(in, cc); !ok || !v {
				p.model = nil
			}
		}
		return d.V == 1
	}
	var take bool
	if mv, ok := p.evalModel(in, c); ok {
		// the model of the path condition already witnesses one side: only the other needs the solver
		p.ModelHits++
		other := c
		if mv {
			other = in.C.Not(c)
		}
		r, m := in.S.CheckModel(p.TimeoutFeas, in.C.Vars, other)
		if r == smt.Unknown {
			p.Unknowns++
		}
		take = mv
		if r != smt.Unsat {
			p.scheduleM(Decision{'b', b2i(!mv)}, m)
		}
	} else {
		rT, mT := in.S.CheckModel(p.TimeoutFeas, in.C.Vars, c)
		var rF smt.Result
		var mF smt.Model
		if rT == smt.Unsat {
			rF = smt.Sat
		} else {
			rF, mF = in.S.CheckModel(p.TimeoutFeas, in.C.Vars, in.C.Not(c))
		}
		if rT == smt.Unknown {
			p.Unknowns++
		}
		if rF == smt.Unknown {
			p.Unknowns++
		}
		switch {
		case rT == smt.Unsat:
			take = false
			p.model = mF
		case rF == smt.Unsat:
			take = true
			p.model = mT
		default:
			take = true
			p.model = mT
			p.scheduleM(Decision{'b', 0}, mF)
		}
	}
	p.Trace = append(p.Trace, Decision{'b', b2i(take)})
	if take {
		p.addPC(in, c)
	} else {
		p.addPC(in, in.C.Not(c))
	}
	return take
}

// Assume adds a constraint; an infeasible path is abandoned.
func (p *PathState) Assume(in *Interp, v Value, why string) {
	switch c := v.(type) {
	case bool:
		if !c {
			panic(Infeasible{why})
		}
	case *smt.Term:
		if k, ok := p.known(c); ok {
			if !k {
				panic(Infeasible{why})
			}
			return
		}
		if p.fresh() {
			r := in.S.Check(p.TimeoutFeas, c)
			if r == smt.Unsat {
				panic(Infeasible{why})
			}
			if r == smt.Unknown {
				p.Unknowns++
			}
		}
		p.addPC(in, c)
	}
}

// AssumeFact adds a constraint that is known to be consistent (domain facts about fresh variables).
func (p *PathState) AssumeFact(in *Interp, c *smt.Term) { p.addPC(in, c) }

// Choose forks over n harness-level alternatives.
func (p *PathState) Choose(n int, why string) int {
	if n <= 0 {
		panic(Infeasible{"empty choice " + why})
	}
	if !p.fresh() {
		d := p.Prefix[len(p.Trace)]
		if d.Kind != 'c' {
			panic(fmt.Sprintf("engine: decision log out of sync at %d: want choice, have %c (%s)", len(p.Trace), d.Kind, why))
		}
		p.Trace = append(p.Trace, d)
		return int(d.V)
	}
	for i := n - 1; i >= 1; i-- {
		p.schedule(Decision{'c', int64(i)})
	}
	p.Trace = append(p.Trace, Decision{'c', 0})
	return 0
}

func truncConstraint(c *smt.Ctx, x *smt.Term, k int64) *smt.Term {
	kf := float64(k)
	switch {
	case k > 0:
		return c.And(c.Le(c.Num(kf), x), c.Lt(x, c.Num(kf+1)))
	case k < 0:
		return c.And(c.Lt(c.Num(kf-1), x), c.Le(x, c.Num(kf)))
	}
	return c.And(c.Lt(c.Num(-1), x), c.Lt(x, c.Num(1)))
}

// ConcretizeInt enumerates the feasible values of int(x) (truncation toward zero).
func (p *PathState) ConcretizeInt(in *Interp, x *smt.Term, why string) int64 {
	if x.Op == smt.OConstN {
		// an exact rational constant: truncate toward zero exactly
		if x.R == nil {
			return int64(math.Trunc(x.F))
		}
		q := new(big.Int).Quo(x.R.Num(), x.R.Denom()) // Quo truncates toward zero
		return q.Int64()
	}
	if in.spec != nil {
		panic(specAbort{})
	}
	if !p.fresh() {
		d := p.Prefix[len(p.Trace)]
		if d.Kind != 'i' {
			panic(fmt.Sprintf("engine: decision log out of sync at %d: want int, have %c (%s)", len(p.Trace), d.Kind, why))
		}
		p.Trace = append(p.Trace, d)
		p.addPC(in, truncConstraint(in.C, x, d.V))
		return d.V
	}
	var vals []int64
	var blocks []*smt.Term
	for len(vals) < 65 {
		r, m := in.S.CheckModel(p.TimeoutFeas, []*smt.Term{x}, blocks...)
		if r == smt.Unsat {
			break
		}
		if r == smt.Unknown {
			p.Unknowns++
			panic(Unsupported{"integer concretisation undecided at " + why})
		}
		mv := m[in.C.Ref(x)]
		if x.Op == smt.OVar {
			mv = m[x.Name]
		}
		f := mv.F
		if nonFinite(f) {
			panic(Unsupported{"integer concretisation: no numeric model value at " + why})
		}
		k := int64(math.Trunc(f))
		// the model value may be inexact: make sure the class is really feasible
		if mv.Inexact || mv.FInexact {
			ok := false
			for _, cand := range []int64{k, k - 1, k + 1} {
				if in.S.Check(p.TimeoutFeas, append(append([]*smt.Term{}, blocks...), truncConstraint(in.C, x, cand))...) == smt.Sat {
					k, ok = cand, true
					break
				}
			}
			if !ok {
				panic(Unsupported{"integer concretisation: inexact model at " + why})
			}
		}
		vals = append(vals, k)
		blocks = append(blocks, in.C.Not(truncConstraint(in.C, x, k)))
	}
	if len(vals) == 0 {
		panic(Infeasible{"no integer value at " + why})
	}
	if len(vals) > 64 {
		panic(Unsupported{"more than 64 integer values at " + why})
	}
	sort.Slice(vals, func(i, j int) bool { return vals[i] < vals[j] })
	for _, v := range vals[1:] {
		p.schedule(Decision{'i', v})
	}
	p.Trace = append(p.Trace, Decision{'i', vals[0]})
	p.addPC(in, truncConstraint(in.C, x, vals[0]))
	return vals[0]
}

// MapOrder returns the iteration order for a map range according to the order oracle.
func (p *PathState) MapOrder(in *Interp, m *MapV, why string) []Value {
	keys := append([]Value{}, m.Keys...)
	n := len(keys)
	if n < 2 {
		return keys
	}
	switch {
	case in.mapOrder == 0:
		return keys
	case in.mapOrder == 1:
		for i, j := 0, n-1; i < j; i, j = i+1, j-1 {
			keys[i], keys[j] = keys[j], keys[i]
		}
		return keys
	case in.mapOrder == 2:
		return m.SortedKeys()
	case in.mapOrder == 3:
		ks := m.SortedKeys()
		for i, j := 0, n-1; i < j; i, j = i+1, j-1 {
			ks[i], ks[j] = ks[j], ks[i]
		}
		return ks
	case in.mapOrder >= 10 && in.mapOrder < 100:
		r := (in.mapOrder - 10) % n
		return append(append([]Value{}, keys[r:]...), keys[:r]...)
	case in.mapOrder == 100:
		// every permutation (n <= 4), else rotations + reversal
		if n <= 4 {
			perms := permutations(n)
			k := p.Choose(len(perms), "map order "+why)
			out := make([]Value, n)
			for i, j := range perms[k] {
				out[i] = keys[j]
			}
			return out
		}
		k := p.Choose(n+1, "map order "+why)
		if k == n {
			for i, j := 0, n-1; i < j; i, j = i+1, j-1 {
				keys[i], keys[j] = keys[j], keys[i]
			}
			return keys
		}
		return append(append([]Value{}, keys[k:]...), keys[:k]...)
	}
	return keys
}

func permutations(n int) [][]int {
	var res [][]int
	cur := make([]int, 0, n)
	used := make([]bool, n)
	var rec func()
	rec = func() {
		if len(cur) == n {
			res = append(res, append([]int{}, cur...))
			return
		}
		for i := 0; i < n; i++ {
			if !used[i] {
				used[i] = true
				cur = append(cur, i)
				rec()
				cur = cur[:len(cur)-1]
				used[i] = false
			}
		}
	}
	rec()
	return res
}

func (p *PathState) modelOf(in *Interp, m smt.Model) map[string]interface{} {
	out := map[string]interface{}{}
	for k, v := range p.Choices {
		out[k] = v
	}
	for _, v := range in.C.Vars {
		mv, ok := m[v.Name]
		if !ok {
			continue
		}
		if mv.IsBool {
			out[v.Name] = mv.B
		} else {
			e := map[string]interface{}{"f64": fmt.Sprintf("0x%016x", math.Float64bits(mv.F)), "approx": mv.F}
			if mv.R != nil {
				e["rat"] = mv.R.RatString()
			}
			if mv.Inexact || mv.FInexact {
				e["inexact"] = true
			}
			out[v.Name] = e
		}
	}
	return out
}

// Assert is a proof obligation: pc ∧ ¬cond must be unsatisfiable.
func (p *PathState) Assert(in *Interp, id string, v Value) {
	if !p.fresh() {
		// decided by an ancestor path with the identical state
		p.Assume(in, v, "assert "+id)
		return
	}
	c := in.C
	switch cond := v.(type) {
	case bool:
		if cond {
			p.Obligations = append(p.Obligations, Obligation{ID: id, Verdict: "concrete-true", PCSize: len(p.PC)})
			return
		}
		p.Obligations = append(p.Obligations, Obligation{ID: id, Verdict: "concrete-false", PCSize: len(p.PC)})
		p.failed(in, id, c.True)
		panic(Infeasible{"assertion " + id + " is concretely false on this path"})
	case *smt.Term:
		if k, ok := p.known(cond); ok && k {
			p.Obligations = append(p.Obligations, Obligation{ID: id, Verdict: "concrete-true", PCSize: len(p.PC)})
			return
		}
		neg := c.Not(cond)
		if p.KeepScripts {
			p.Scripts = append(p.Scripts, in.S.Script(neg))
		}
		q0 := in.S.Stats.Time
		r := in.S.Check(p.TimeoutOb, neg)
		if r == smt.Unknown {
			// bug-finding fallback: make the query linear by fixing one side of every symbolic product
			if conj, ok := p.concretiseSearch(in, id, neg); ok {
				r, neg = smt.Sat, conj
			}
		}
		if r == smt.Unknown {
			// second opinion: the other installed solvers on the self-contained script of this obligation
			script := in.S.Script(neg)
			for _, ext := range [][]string{{"cvc5", "--tlimit=120000", "--lang=smt2"}, {"/usr/bin/z3", "-in", "-T:120"}} {
				re, _ := smt.RunExternal(ext[0], ext[1:], script, 130*time.Second)
				if re == smt.Unsat {
					r = smt.Unsat
					p.Notes = append(p.Notes, "obligation "+id+" undecided by z3 5.1.0, discharged by "+ext[0])
					break
				}
			}
		}
		ms := float64((in.S.Stats.Time - q0).Microseconds()) / 1000
		cs := cond.String()
		if len(cs) > 160 {
			cs = cs[:160] + "…"
		}
		p.Obligations = append(p.Obligations, Obligation{ID: id, Verdict: r.String(), PCSize: len(p.PC), Ms: ms, Cond: cs})
		switch r {
		case smt.Unsat:
			return
		case smt.Unknown:
			p.ObUnknown++
		case smt.Sat:
			p.failed(in, id, neg)
		}
		p.Assume(in, cond, "after assert "+id)
	}
}

// niceModel looks for a model whose inputs lie on a dyadic grid (so that the native float
// run performs the same arithmetic exactly), falling back to an unconstrained model.
func (p *PathState) niceModel(in *Interp, conds ...*smt.Term) (smt.Result, smt.Model) {
	c := in.C
	if c.Mode == smt.REAL {
		for _, g := range []float64{4, 64, 4096} {
			ext := append([]*smt.Term{}, conds...)
			for _, v := range c.Vars {
				if v.Sort != smt.SNum {
					continue
				}
				sc := c.Mul(v, c.Num(g))
				ext = append(ext, c.Eq(sc, c.Floor(sc)), c.Le(c.Abs(v), c.Num(1024)))
			}
			r, m := in.S.CheckModel(10000, c.Vars, ext...)
			if r == smt.Sat {
				return r, m
			}
		}
	}
	return in.S.CheckModel(p.TimeoutOb, c.Vars, conds...)
}

// failed classifies a violated assertion against the active known-finding regions and extracts models.
func (p *PathState) failed(in *Interp, id string, neg *smt.Term) {
	c := in.C
	var regions []kfRegion
	for _, r := range p.kfActive {
		if p.KnownKF[r.id] {
			regions = append(regions, r)
		}
	}
	outside := []*smt.Term{neg}
	for _, r := range regions {
		outside = append(outside, c.Not(in.boolTerm(r.cond)))
	}
	r, m := p.niceModel(in, outside...)
	if r == smt.Unknown && len(regions) == 0 {
		p.ObUnknown++
		p.Notes = append(p.Notes, "no model obtained for violated assertion "+id+" (solver unknown)")
		return
	}
	if r == smt.Sat {
		p.Violations = append(p.Violations, Violation{Assert: id, Model: p.modelOf(in, m), Decisions: append([]Decision{}, p.Trace...), PathID: p.ID, PCSize: len(p.PC)})
		return
	}
	if r == smt.Unknown {
		p.ObUnknown++
		p.Notes = append(p.Notes, "unknown while separating "+id+" from known-finding regions")
		return
	}
	for _, reg := range regions {
		if _, seen := p.KFSeen[reg.id]; seen {
			continue
		}
		r2, m2 := p.niceModel(in, neg, in.boolTerm(reg.cond))
		if r2 == smt.Sat {
			p.KFSeen[reg.id] = Violation{Assert: id, KF: reg.id, Model: p.modelOf(in, m2), Decisions: append([]Decision{}, p.Trace...), PathID: p.ID, PCSize: len(p.PC)}
		}
	}
}

func (p *PathState) KnownFinding(id string, region Value) {
	for i, r := range p.kfActive {
		if r.id == id {
			p.kfActive[i].cond = region
			return
		}
	}
	p.kfActive = append(p.kfActive, kfRegion{id, region})
}
