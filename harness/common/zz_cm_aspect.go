//go:build verif

//verif:dir logic/limited-rationality/aspect-elimination
package aspect_elimination

import (
	sl "github.com/Azbesciak/RealDecisionMaker/lib/logic/limited-rationality/satisfaction-levels"
	"github.com/Azbesciak/RealDecisionMaker/lib/model"
	vh "github.com/Azbesciak/RealDecisionMaker/lib/zz_vh"
	rt "github.com/Azbesciak/RealDecisionMaker/lib/zz_verifrt"
)

// Request builder shared by the aspect-elimination harnesses (C01, C12).

var c12sources = []sl.SatisfactionLevelsSource{&sl.IdealIncreasingMulCoefficientSatisfaction, &sl.IdealAdditiveCoefficientSatisfaction, &sl.IncreasingThresholds}

type c12setup struct {
	known  []model.AlternativeWithCriteria
	chose  []string
	crit   model.Criteria
	params AspectEliminationHeuristicParams
	dmp    *model.DecisionMakingParams
	levels []model.Weights
}

func c12build(maxA, maxK, maxL int, shuffle bool) *c12setup {
	return c12buildOpt(maxA, maxK, maxL, shuffle, true)
}

func c12buildOpt(maxA, maxK, maxL int, shuffle, distinctWeights bool) *c12setup {
	A := rt.IntRange("A", 1, maxA)
	K := rt.IntRange("K", 1, maxK)
	crit := vh.Criteria(1, "")
	for i := 1; i < K; i++ {
		t := model.Cost
		if i%2 == 0 {
			t = model.Gain
		}
		crit = append(crit, model.Criterion{Id: vh.CritIds[i], Type: t})
	}
	nKnown := A
	if rt.Bool("one-more-known") {
		nKnown = A + 1
	}
	known := vh.Alternatives("", vh.AltIds[:nKnown], crit)
	chose := []string{}
	for i := A - 1; i >= 0; i-- {
		chose = append(chose, vh.AltIds[i])
	}
	w := vh.Weights("w.", crit, 0, 4)
	if distinctWeights {
		for i := 0; i < K; i++ {
			for j := i + 1; j < K; j++ {
				rt.Assume(w[crit[i].Id] != w[crit[j].Id])
			}
		}
	}
	s := &c12setup{known: known, chose: chose, crit: crit}
	fn := rt.OneOf("levels", "thresholds", "idealAdditiveCoefficient", "idealMultipliedCoefficient")
	var p interface{}
	switch fn {
	case "thresholds":
		L := rt.IntRange("L", 1, maxL)
		p = vh.JSONThresholds("t", L, crit)
	case "idealAdditiveCoefficient":
		if rt.Bool("series-variant") {
			p = vh.JSONCoefficient(0.5, 0, 1)
		} else {
			p = vh.JSONCoefficient(0.25, 0.5, 0.75)
		}
	default:
		if rt.Bool("series-variant") {
			p = vh.JSONCoefficient(0.5, 0, 0.75)
		} else {
			p = vh.JSONCoefficient(0.9, 0.25, 1)
		}
	}
	s.params = AspectEliminationHeuristicParams{Function: fn, Params: p, RandomSeed: 3, Weights: w, RandomAlternativesOrdering: shuffle}
	s.dmp = vh.Params(known, chose, crit, s.params)
	// the levels, from a second instance of the real source
	src := sl.Find(fn, p, c12sources)
	src.Initialize(s.dmp)
	for src.HasNext() {
		s.levels = append(s.levels, src.Next())
		if len(s.levels) > 8 {
			panic("series longer than the harness bound")
		}
	}
	return s
}

