//go:build verif

//verif:dir logic/biases/preference-reversal
package preference_reversal

import (
	"math"

	"github.com/Azbesciak/RealDecisionMaker/lib/logic/limited-rationality/majority"
	"github.com/Azbesciak/RealDecisionMaker/lib/model"
	"github.com/Azbesciak/RealDecisionMaker/lib/model/criteria-ordering"
	"github.com/Azbesciak/RealDecisionMaker/lib/utils"
	vh "github.com/Azbesciak/RealDecisionMaker/lib/zz_vh"
	rt "github.com/Azbesciak/RealDecisionMaker/lib/zz_verifrt"
)

//verif:bounds C16 HC16_reversal: PreferenceReversal.Apply on A<=3 (quick) / A<=4 (thorough) known alternatives (all considered - the aliasing-prone case - or the last one not considered), K<=2 (quick) / K<=3 (thorough) criteria (gain/cost, the first optionally with a declared symbolic valuesRange), symbolic values, weights (ties allowed) and ratio in [0,1], min in {0,1}, max in {1,K,absent}, orderings weakest / strongest (thorough: also random with symbolic draws); the bias listener is the majority heuristic's (importance = weight); JSON-shaped props through the mapstructure model; the ORIGINAL parameters handed to Apply optionally carry different (independent symbolic) values, as after an earlier bias; the bias is then applied a second time to its own output
//verif:outside C16: which criteria an ordering puts first is C15's subject (the harness obtains the expected ordering from the same resolver); 'after other biases' is covered by the C07/C09 pipeline checks
//verif:assume C16: REAL arithmetic: max + min - (max + min - v) = v exactly

var c16orderings = []criteria_ordering.CriteriaOrderingResolver{
	&criteria_ordering.WeakestCriteriaOrderingResolver{},
	&criteria_ordering.StrongestCriteriaOrderingResolver{},
	&criteria_ordering.RandomCriteriaOrderingResolver{Generator: rt.Generators},
}

func c16value(d *model.DecisionMakingParams, alt, crit string) (float64, bool) {
	for _, g := range [][]model.AlternativeWithCriteria{d.ConsideredAlternatives, d.NotConsideredAlternatives} {
		for _, a := range g {
			if a.Id == alt {
				v, ok := a.Criteria[crit]
				return v, ok
			}
		}
	}
	return 0, false
}

//verif:harness HC16_reversal mode=REAL reach=declared-range,observed-range,all-considered,some-reversed,none-reversed,all-reversed,cost,original-differs
func HC16_reversal() {
	A := rt.IntRange("A", 1, rt.Pick(3, 4))
	K := rt.IntRange("K", 1, rt.Pick(2, 3))
	crit := vh.Criteria(K, "")
	if crit[0].Type == model.Cost {
		rt.Reach("cost")
	}
	if rt.Bool("declared-range") {
		lo, hi := rt.Float("range.lo"), rt.Float("range.hi")
		rt.Assume(lo < hi)
		crit[0].ValuesRange = &utils.ValueRange{Min: lo, Max: hi}
	}
	known := vh.Alternatives("", vh.AltIds[:A], crit)
	chose := append([]string{}, vh.AltIds[:A]...)
	if A > 1 && rt.Bool("last-not-considered") {
		chose = chose[:A-1]
	} else {
		rt.Reach("all-considered")
	}
	if len(chose) > 1 && rt.Bool("chose-listed-descending") {
		// the considered alternatives are listed in the order of choseToMake: not necessarily by id
		for i, j := 0, len(chose)-1; i < j; i, j = i+1, j-1 {
			chose[i], chose[j] = chose[j], chose[i]
		}
	}
	w := vh.Weights("w.", crit, 0, 4)
	methodParams := majority.MajorityHeuristicParams{Weights: w}
	current := vh.Params(known, chose, crit, methodParams)
	var listener model.BiasListener = &majority.MajorityBiasListener{}
	ratio := rt.FloatIn("ratio", 0, 1)
	props := map[string]interface{}{"ratio": ratio}
	minK, maxK := 0, K
	if rt.Bool("min-one") {
		minK = 1
		props["min"] = float64(1)
	}
	switch rt.OneOf("max", "absent", "one", "K") {
	case "one":
		maxK = 1
		props["max"] = float64(1)
	case "K":
		props["max"] = float64(K)
	}
	ordering := rt.OneOf("ordering", "default", "strongest")
	if rt.Thorough() && rt.Bool("random-ordering") {
		ordering = "random"
	}
	if ordering != "default" {
		props["ordering"] = ordering
		props["randomSeed"] = float64(51)
	}
	var bp model.BiasProps = props
	bias := NewPreferenceReversal(c16orderings)
	// the ORIGINAL parameters differ from the current ones (as after an earlier bias): nothing may be taken from them
	original := current
	if rt.Bool("original-differs") {
		origCrit := append(append(model.Criteria{}, crit...), model.Criterion{Id: "dropped-earlier", Type: model.Gain})
		original = vh.Params(vh.Alternatives("orig.", vh.AltIds[:A], origCrit), chose, origCrit, majority.MajorityHeuristicParams{Weights: vh.Weights("orig.w.", origCrit, 0, 4)})
		rt.Reach("original-differs")
	}
	snapBefore := rt.Snapshot(current)
	res := bias.Apply(original, current, &bp, &listener)
	rt.Assert("C16.received-state-untouched", rt.Same(snapBefore, current))
	rep := res.Props.(PreferenceReversalResult)

	// expected selection: first k of the ordering, k = clamp(floor(K*ratio), min, max)
	resolver := criteria_ordering.FetchOrderingResolver(&c16orderings, &criteria_ordering.CriteriaOrdering{Ordering: props2ordering(ordering)})
	order := resolver.OrderCriteria(current, &bp, &listener)
	k := int(math.Floor(float64(K) * ratio))
	if k < minK {
		k = minK
	} else if k > maxK {
		k = maxK
	}
	rt.Assert("C16.count-is-clamped-floor", len(rep.ReversedPreferenceCriteria) == k)
	if len(rep.ReversedPreferenceCriteria) != k {
		return
	}
	switch {
	case k == 0:
		rt.Reach("none-reversed")
	case k == K:
		rt.Reach("all-reversed")
	default:
		rt.Reach("some-reversed")
	}
	selected := map[string]bool{}
	for i := 0; i < k; i++ {
		c := (*order)[i]
		selected[c.Id] = true
		r := rep.ReversedPreferenceCriteria[i]
		rt.Assert("C16.report-lists-front-of-ordering", r.Id == c.Id && r.Type == c.Type)
		mn, mx := vh.RangeOf(&c, known)
		if c.ValuesRange != nil {
			rt.Reach("declared-range")
		} else {
			rt.Reach("observed-range")
		}
		rt.Assert("C16.reported-range", r.ValuesRange.Min == mn && r.ValuesRange.Max == mx)
		rt.Assert("C16.report-covers-every-known-alternative", len(r.AlternativesValues) == A)
		for _, a := range known {
			nv, ok := c16value(res.DMP, a.Id, c.Id)
			rt.Assert("C16.value-present", ok)
			rt.Assert("C16.mirrored-in-range", nv == mx+mn-a.Criteria[c.Id])
			rv, rok := r.AlternativesValues[a.Id]
			rt.Assert("C16.report-carries-new-value", rok && rv == nv)
		}
		// the observed range of a reversed criterion is preserved
		if c.ValuesRange == nil {
			var after []model.AlternativeWithCriteria
			after = append(append(after, res.DMP.ConsideredAlternatives...), res.DMP.NotConsideredAlternatives...)
			mn2, mx2 := vh.RangeOf(&c, after)
			rt.Assert("C16.range-preserved", mn2 == mn && mx2 == mx)
		}
	}
	// everything else unchanged
	for _, c := range crit {
		if selected[c.Id] {
			continue
		}
		for _, a := range known {
			nv, ok := c16value(res.DMP, a.Id, c.Id)
			rt.Assert("C16.other-values-unchanged", ok && nv == a.Criteria[c.Id])
		}
	}
	rt.Assert("C16.criteria-unchanged", rt.DeepEqual(res.DMP.Criteria, current.Criteria))
	rt.Assert("C16.method-parameters-unchanged", rt.DeepEqual(res.DMP.MethodParameters, current.MethodParameters))
	rt.Assert("C16.split-unchanged", len(res.DMP.ConsideredAlternatives) == len(chose) && len(res.DMP.NotConsideredAlternatives) == A-len(chose))
	for i, id := range chose {
		rt.Assert("C16.considered-order-unchanged", res.DMP.ConsideredAlternatives[i].Id == id)
	}
	// reversing the same criteria a second time restores the data
	if ordering != "random" {
		res2 := bias.Apply(original, res.DMP, &bp, &listener)
		rep2 := res2.Props.(PreferenceReversalResult)
		rt.Assert("C16.second-application-selects-the-same-criteria", len(rep2.ReversedPreferenceCriteria) == k)
		for _, c := range crit {
			for _, a := range known {
				nv, ok := c16value(res2.DMP, a.Id, c.Id)
				rt.Assert("C16.reversing-twice-restores", ok && nv == a.Criteria[c.Id])
			}
		}
	}
}

func props2ordering(o string) string {
	if o == "default" {
		return ""
	}
	return o
}
