//go:build verif

//verif:dir logic/biases/criteria-mixing
package criteria_mixing

import (
	"github.com/Azbesciak/RealDecisionMaker/lib/logic/limited-rationality/majority"
	"github.com/Azbesciak/RealDecisionMaker/lib/model"
	"github.com/Azbesciak/RealDecisionMaker/lib/model/reference-criterion"
	"github.com/Azbesciak/RealDecisionMaker/lib/utils"
	vh "github.com/Azbesciak/RealDecisionMaker/lib/zz_vh"
	rt "github.com/Azbesciak/RealDecisionMaker/lib/zz_verifrt"
)

//verif:bounds C18 HC18_mixing: CriteriaMixing.Apply with the majority listener: K in 1..3 criteria (gain/cost; the first optionally with a declared range [-1.5,6.5] that contains its symbolic values), A=2 known alternatives (one not considered), symbolic values / weights in [0.125,4] / mixingRatio in [0,1] / draws, default reference-criterion strategy with symbolic importance; a second application follows (id uniqueness). HC18_index_fp: bit-precise: for every float draw in [0,1) and n<=7 criteria the two mixed indices are valid and different, and the uniform reference index floor(g x n) is < n
//verif:outside C18: when a declared valuesRange does not contain the criterion's values the rescaled components may leave [0,T] (the statement claims only the mixing formula then); symbolic x symbolic rescaling after a previous mixing (the second application uses concrete numbers)

func c18manager() reference_criterion.ReferenceCriteriaManager {
	return *reference_criterion.NewReferenceCriteriaManager([]reference_criterion.ReferenceCriterionFactory{
		&reference_criterion.ImportanceRatioReferenceCriterionManager{},
		&reference_criterion.RandomUniformReferenceCriterionManager{RandomFactory: rt.Generators},
		&reference_criterion.RandomWeightedReferenceCriterionManager{RandomFactory: rt.Generators},
	})
}

func c18all(d *model.DecisionMakingParams) []model.AlternativeWithCriteria {
	return append(append([]model.AlternativeWithCriteria{}, d.ConsideredAlternatives...), d.NotConsideredAlternatives...)
}

func c18abs(x float64) float64 { return rt.IteF(x < 0, -x, x) }

//verif:harness HC18_mixing mode=REAL reach=mixed,too-few-criteria,cost-component,declared-range,degenerate-component ob_timeout_ms=60000
func HC18_mixing() {
	K := rt.IntRange("K", 1, 3)
	crit := vh.Criteria(K, "")
	known := vh.Alternatives("", vh.AltIds[:2], crit)
	if rt.Bool("declared-range") {
		// a declared range that contains the values of its criterion (the statement's domain for the [0,T] clause);
		// its ends are concrete (a symbolic divisor next to the symbolic observed ranges left obligations undecided)
		lo, hi := -1.5, 6.5
		for i := range known {
			known[i].Criteria[crit[0].Id] = rt.FloatIn(known[i].Id+"."+crit[0].Id+".inrange", lo, hi)
		}
		crit[0].ValuesRange = &utils.ValueRange{Min: lo, Max: hi}
		rt.Reach("declared-range")
	}
	w := vh.Weights("w.", crit, 0.125, 4)
	current := vh.Params(known, []string{"b"}, crit, majority.MajorityHeuristicParams{Weights: w})
	var listener model.BiasListener = &majority.MajorityBiasListener{}
	ratio := rt.FloatIn("mixingRatio", 0, 1)
	props := map[string]interface{}{"randomSeed": float64(85), "mixingRatio": ratio, "newCriterionImportance": rt.FloatIn("importance", 0, 1)}
	var bp model.BiasProps = props
	bias := NewCriteriaMixing(rt.Generators, c18manager())
	snap := rt.Snapshot(current)
	origCrit := append(append(model.Criteria{}, crit...), model.Criterion{Id: "dropped-earlier", Type: model.Gain})
	original := vh.Params(vh.Alternatives("orig.", vh.AltIds[:2], origCrit), []string{"b"}, origCrit, majority.MajorityHeuristicParams{Weights: vh.Weights("orig.w.", origCrit, 0.125, 4)}) // differs from current: must not be used
	res := bias.Apply(original, current, &bp, &listener)
	rt.Assert("C18.mix.received-state-untouched", rt.Same(snap, current))
	if K < 2 {
		rt.Reach("too-few-criteria")
		rt.Assert("C18.mix.nothing-happens-with-fewer-than-two-criteria", res.DMP == current && res.Props == nil)
		return
	}
	rt.Reach("mixed")
	after := res.DMP
	rep := res.Props.(MixedCriterion)
	rt.Assert("C18.mix.exactly-one-criterion-appended", len(after.Criteria) == K+1)
	if len(after.Criteria) != K+1 {
		return
	}
	nc := after.Criteria[K]
	prev := *crit.Names()
	rt.Assert("C18.mix.new-id-unused", !vh.Contains(prev, nc.Id) && rep.NewCriterion.Id == nc.Id)
	rt.Assert("C18.mix.new-criterion-is-gain", nc.Type == model.Gain)
	rt.Assert("C18.mix.two-distinct-existing-components", rep.Component1.Id != rep.Component2.Id && vh.Contains(prev, rep.Component1.Id) && vh.Contains(prev, rep.Component2.Id))
	var c1, c2 model.Criterion
	for _, c := range crit {
		if c.Id == rep.Component1.Id {
			c1 = c
		}
		if c.Id == rep.Component2.Id {
			c2 = c
		}
	}
	if c1.Type == model.Cost || c2.Type == model.Cost {
		rt.Reach("cost-component")
	}
	// T: the target range is [0, T] with T from the reference criterion (one of the existing criteria)
	T := nc.ValuesRange.Max
	rt.Assert("C18.mix.target-range-grounded-at-zero", nc.ValuesRange.Min == 0)
	refOK := false
	gen := rt.Generators(85)
	gen()
	gen()
	g := gen() // third draw of the bias's stream: the new weight's fraction
	bw := w
	aw := after.MethodParameters.(majority.MajorityHeuristicParams).Weights
	nw, okw := aw[nc.Id]
	rt.Assert("C18.mix.parameters-extended-by-one", okw && len(aw) == K+1)
	for i := range crit {
		c := crit[i]
		mn, mx := vh.RangeOf(&c, known)
		t1 := rt.IteF(c18abs(mn) > c18abs(mx), c18abs(mn), c18abs(mx))
		t := rt.IteF(t1 > mx-mn, t1, mx-mn)
		refOK = rt.Or(refOK, rt.And(T == t, nw == g*bw[c.Id]))
	}
	rt.Assert("C18.mix.reference-is-an-existing-criterion(T-and-weight-fraction)", refOK)
	for _, c := range prev {
		rt.Assert("C18.mix.existing-weights-unchanged", aw[c] == bw[c])
	}
	rescaled := func(c *model.Criterion, v float64) float64 {
		mn, mx := vh.RangeOf(c, known)
		d := mx - mn
		if rt.Branch(d == 0) {
			rt.Reach("degenerate-component")
			return 0
		}
		scale := T / d
		if c.Type == model.Cost {
			return (mx - v) * scale
		}
		return (v - mn) * scale
	}
	allAfter := c18all(after)
	rt.Assert("C18.mix.alternatives-kept", len(allAfter) == 2)
	for _, b := range known {
		a := vh.FindAlt(allAfter, b.Id)
		v, ok := a.Criteria[nc.Id]
		rt.Assert("C18.mix.every-alternative-gets-a-value", ok && len(a.Criteria) == K+1)
		x1, x2 := rescaled(&c1, b.Criteria[c1.Id]), rescaled(&c2, b.Criteria[c2.Id])
		rt.Assert("C18.mix.mixed-value-formula", v == x1*ratio+x2*(1-ratio))
		lo, hi := rt.IteF(x1 < x2, x1, x2), rt.IteF(x1 < x2, x2, x1)
		rt.Assert("C18.mix.between-the-rescaled-components", rt.And(v >= lo, v <= hi))
		rt.Assert("C18.mix.components-within-zero-and-T", rt.And(rt.And(x1 >= 0, x1 <= T), rt.And(x2 >= 0, x2 <= T)))
		rt.Assert("C18.mix.report-carries-components-and-value", rep.Component1.ScaledValues[b.Id] == x1 && rep.Component2.ScaledValues[b.Id] == x2 && rep.NewCriterion.ScaledValues[b.Id] == v)
		for _, c := range prev {
			rt.Assert("C18.mix.existing-values-untouched", a.Criteria[c] == b.Criteria[c])
		}
	}
	rt.Assert("C18.mix.split-unchanged", len(after.ConsideredAlternatives) == 1 && after.ConsideredAlternatives[0].Id == "b")
}

//verif:harness HC18_mixing_repeat mode=REAL reach=applied-twice
func HC18_mixing_repeat() {
	K := rt.IntRange("K", 2, 3)
	crit := vh.Criteria(K, "")
	known := vh.Alternatives("", vh.AltIds[:2], crit)
	for i := range known {
		for j, c := range crit {
			known[i].Criteria[c.Id] = [][]float64{{1, -2, 3}, {4, 0.5, 3}}[i][j]
		}
	}
	w := model.Weights{}
	for j, c := range crit {
		w[c.Id] = []float64{0.5, 2, 1}[j]
	}
	current := vh.Params(known, []string{"b", "a"}, crit, majority.MajorityHeuristicParams{Weights: w})
	original := current
	var listener model.BiasListener = &majority.MajorityBiasListener{}
	bias := NewCriteriaMixing(rt.Generators, c18manager())
	for t := 0; t < 2; t++ {
		// same seed both times: with symbolic draws the solver may select the same pair again
		var bp model.BiasProps = map[string]interface{}{"randomSeed": float64(86), "mixingRatio": 0.25}
		before := current
		res := bias.Apply(original, before, &bp, &listener)
		after := res.DMP
		rt.Assert("C18.mix.repeat.one-criterion-appended", len(after.Criteria) == len(before.Criteria)+1)
		ids := *after.Criteria.Names()
		for _, id := range ids {
			rt.Assert("C18.mix.repeat.ids-unique", vh.Count(ids, id) == 1)
		}
		for _, a := range c18all(after) {
			rt.Assert("C18.mix.repeat.values-for-exactly-the-criteria", len(a.Criteria) == len(ids))
		}
		current = after
	}
	rt.Reach("applied-twice")
}

//verif:harness HC18_index_fp mode=FP reach=checked feas_timeout_ms=60000
func HC18_index_fp() {
	n := rt.IntRange("n", 2, 7)
	crit := vh.Criteria(n, "gain")
	g1, g2 := rt.FloatIn("g1", 0, 1), rt.FloatIn("g2", 0, 1)
	rt.Assume(g1 < 1)
	rt.Assume(g2 < 1)
	k := 0
	gen := func() float64 {
		k++
		if k == 1 {
			return g1
		}
		return g2
	}
	c2m := selectCriteriaToMix(&model.DecisionMakingParams{Criteria: crit}, gen)
	rt.Assert("C18.mix.fp.two-different-criteria", c2m.c1.Id != c2m.c2.Id)
	// uniform reference index
	ranked := make(model.WeightedCriteria, n)
	for i := range ranked {
		ranked[i] = model.WeightedCriterion{Criterion: crit[i], Weight: 1}
	}
	p := (&reference_criterion.RandomUniformReferenceCriterionManager{RandomFactory: func(int64) utils.ValueGenerator { return func() float64 { return g1 } }}).NewProvider()
	ref := p.Provide(&ranked)
	rt.Assert("C18.ref.fp.uniform-index-valid", ref != nil)
	rt.Reach("checked")
}
