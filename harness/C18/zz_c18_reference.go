//go:build verif

//verif:dir model/reference-criterion
package reference_criterion

import (
	"github.com/Azbesciak/RealDecisionMaker/lib/model"
	rt "github.com/Azbesciak/RealDecisionMaker/lib/zz_verifrt"
)

//verif:bounds C18 HC18_reference_strategy: ReferenceCriteriaManager.ForParams(...).Provide on K in 1..3 ranked criteria (three concrete ascending weight families incl. ties) for the default strategy and the three named ones, with explicit parameters (newCriterionImportance symbolic in [0,1], a seed) or none (documented defaults), optionally after an earlier call on the same manager with other explicit parameters: the criterion returned is the one the configured strategy and parameters select (importanceRatio: first criterion whose cumulated weight reaches importance x total; randomUniform: index floor(draw x K); randomWeighted: the same cumulation over min/weight with draw x total) - in particular nothing of the earlier call survives
//verif:harness HC18_reference_strategy mode=REAL reach=importanceRatio,randomUniform,randomWeighted,after-earlier-call,defaults
func HC18_reference_strategy() {
	K := rt.IntRange("K", 1, 3)
	fam := rt.IntRange("weights", 0, 2)
	ws := [][]float64{{0.5, 1, 2}, {1, 1, 1}, {0.25, 0.25, 4}}[fam]
	ids := []string{"c1", "c2", "c3"}
	ranked := make(model.WeightedCriteria, K)
	for i := 0; i < K; i++ {
		ranked[i] = model.WeightedCriterion{Criterion: model.Criterion{Id: ids[i], Type: model.Gain}, Weight: ws[i]}
	}
	m := NewReferenceCriteriaManager([]ReferenceCriterionFactory{
		&ImportanceRatioReferenceCriterionManager{},
		&RandomUniformReferenceCriterionManager{RandomFactory: rt.Generators},
		&RandomWeightedReferenceCriterionManager{RandomFactory: rt.Generators},
	})
	strategy := rt.OneOf("strategy", "default", "importanceRatio", "randomUniform", "randomWeighted")
	if rt.Bool("earlier-call-with-other-parameters") {
		var p0 interface{} = map[string]interface{}{"newCriterionImportance": 0.875, "newCriterionRandomSeed": float64(55)}
		if strategy != "default" {
			p0.(map[string]interface{})["referenceCriterionType"] = strategy
		}
		m.ForParams(&p0).Provide(&ranked)
		rt.Reach("after-earlier-call")
	}
	props := map[string]interface{}{}
	if strategy != "default" {
		props["referenceCriterionType"] = strategy
	}
	imp, seed := 0.0, int64(0)
	if rt.Bool("explicit-parameters") {
		imp, seed = rt.FloatIn("importance", 0, 1), 91
		props["newCriterionImportance"] = imp
		props["newCriterionRandomSeed"] = float64(seed)
	} else {
		rt.Reach("defaults")
	}
	var p interface{} = props
	got := m.ForParams(&p).Provide(&ranked)
	idx := -1
	for i := 0; i < K; i++ {
		if ranked[i].Id == got.Id {
			idx = i
		}
	}
	rt.Assert("C18.reference-is-an-existing-criterion", idx >= 0)
	if idx < 0 {
		return
	}
	// cumulated-weight selection: the first criterion whose cumulated weight reaches the expected one, else the last
	cumulated := func(weights []float64, expected float64) bool {
		cum := 0.0
		ok := true
		for i := 0; i <= idx; i++ {
			cum += weights[i]
			if i < idx {
				ok = rt.And(ok, cum < expected)
			}
		}
		if idx < K-1 {
			ok = rt.And(ok, cum >= expected)
		}
		return ok
	}
	switch strategy {
	case "default", "importanceRatio":
		rt.Reach("importanceRatio")
		total := 0.0
		for i := 0; i < K; i++ {
			total += ws[i]
		}
		rt.Assert("C18.reference-chosen-by-importance-ratio", cumulated(ws[:K], imp*total))
	case "randomUniform":
		rt.Reach("randomUniform")
		u := rt.Generators(seed)()
		rt.Assert("C18.reference-chosen-uniformly-by-the-seeded-draw", rt.And(u*float64(K) >= float64(idx), u*float64(K) < float64(idx+1)))
	case "randomWeighted":
		rt.Reach("randomWeighted")
		u := rt.Generators(seed)()
		mn := ws[0]
		for i := 0; i < K; i++ {
			if ws[i] < mn {
				mn = ws[i]
			}
		}
		mapped := make([]float64, K)
		total := 0.0
		for i := 0; i < K; i++ {
			mapped[i] = mn / ws[i]
			total += mapped[i]
		}
		rt.Assert("C18.reference-chosen-by-inverse-weight-and-the-seeded-draw", cumulated(mapped, u*total))
	}
}
