package sym

import (
	"fmt"
	"go/constant"
	"go/token"
	"go/types"
	"math"
	"math/big"
	"path/filepath"
	"reflect"
	"strings"
	"sync"
	"unsafe"

	"gosym/smt"

	"golang.org/x/tools/go/ssa"
)

// Limits are the unwinding bounds of one path. Exceeding one is never success.
type Limits struct {
	MaxDepth int
	MaxSteps int
	MaxLoop  int
}

var DefaultLimits = Limits{MaxDepth: 400, MaxSteps: 4_000_000, MaxLoop: 20_000}

type frame struct {
	fn        *ssa.Function
	env       map[ssa.Value]Value
	block     *ssa.BasicBlock
	prev      *ssa.BasicBlock
	defers    []deferred
	panicking *GoPanic
	loopCount map[*ssa.BasicBlock]int
	result    Value
	harness   bool
	phisDone  bool
}

type deferred struct {
	fn   Value
	args []Value
	site ssa.Instruction
}

// GoPanic is a panic of the interpreted program.
type GoPanic struct {
	Val  Value
	Site string
	Runtime bool
}

func (p *GoPanic) Error() string { return "go panic: " + Describe(p.Val, 0) + " at " + p.Site }

// BudgetExceeded aborts a path that ran into an unwinding bound.
type BudgetExceeded struct {
	Kind string
	Where string
}

func (b BudgetExceeded) Error() string { return "budget exceeded: " + b.Kind + " at " + b.Where }

// Infeasible aborts a path whose assumptions are unsatisfiable.
type Infeasible struct{ Why string }

func (i Infeasible) Error() string { return "infeasible: " + i.Why }

type fnInfo struct {
	harness  bool
	inScope  bool
	hasDefer bool
	fullName string
}

type Interp struct {
	Prog    *ssa.Program
	Sizes   types.Sizes
	ScopePrefix string // import path prefix of packages whose code and inits are executed
	Limits  Limits

	// per path
	C       *smt.Ctx
	S       *smt.Solver
	P       *PathState
	globals map[*ssa.Global]*Obj
	nextObj int
	epoch   int
	depth   int
	steps   int
	deferStack []*frame
	fnInfos map[*ssa.Function]*fnInfo
	FnCount map[*ssa.Function]int // SSA instructions executed per function (across paths)
	curFn   *ssa.Function
	rand    map[int64]*randStream
	genSeq  int
	mapOrder int
	tier    string
	Writes  []WriteEvent
	trackWrites bool
	unsupportedHit string
	CallHook func(fn *ssa.Function)
	spec    *specCtx
	NoMerge bool
	expApps []expApp
	conc    *concreteCtx
	cfgs    map[*ssa.Function]*fnCFG
	Fixed   map[string]string
	drawMode int
	syncMaps map[string]*MapV // sync.Map contents by receiver object (model in intrinsics.go)
	symSeeds map[int64]bool // seeds whose draws stay symbolic under a fixed draw pattern (verifrt.SymbolicSeed)
}

type WriteEvent struct {
	Site  string
	Label string
	Owned bool
}

func NewInterp(prog *ssa.Program, scope string) *Interp {
	return &Interp{Prog: prog, Sizes: types.SizesFor("gc", "amd64"), ScopePrefix: scope, Limits: DefaultLimits,
		fnInfos: map[*ssa.Function]*fnInfo{}, FnCount: map[*ssa.Function]int{}}
}

func (in *Interp) info(fn *ssa.Function) *fnInfo {
	if fi, ok := in.fnInfos[fn]; ok {
		return fi
	}
	fi := &fnInfo{fullName: fn.String()}
	root := fn
	for root.Parent() != nil {
		root = root.Parent()
	}
	if root.Pkg != nil {
		fi.inScope = strings.HasPrefix(root.Pkg.Pkg.Path(), in.ScopePrefix)
	} else if o := root.Origin(); o != nil && o.Pkg != nil {
		fi.inScope = strings.HasPrefix(o.Pkg.Pkg.Path(), in.ScopePrefix)
	} else if root.Synthetic != "" {
		// wrappers, bound-method closures and thunks only forward to a declared method,
		// which is subject to the scope check itself
		fi.inScope = true
	}
	if root.Pos().IsValid() {
		base := filepath.Base(in.Prog.Fset.Position(root.Pos()).Filename)
		fi.harness = strings.HasPrefix(base, "zz_")
	}
	if root.Pkg != nil && strings.Contains(root.Pkg.Pkg.Path(), "zz_") {
		fi.harness = true
	}
	for _, b := range fn.Blocks {
		for _, ins := range b.Instrs {
			if _, ok := ins.(*ssa.Defer); ok {
				fi.hasDefer = true
			}
		}
	}
	in.fnInfos[fn] = fi
	return fi
}

// ResetPath prepares the interpreter for a new path.
func (in *Interp) ResetPath(c *smt.Ctx, s *smt.Solver, p *PathState) {
	in.C, in.S, in.P = c, s, p
	in.globals = map[*ssa.Global]*Obj{}
	in.nextObj = 0
	in.epoch = 0
	in.depth = 0
	in.steps = 0
	in.deferStack = nil
	in.rand = map[int64]*randStream{}
	in.genSeq = 0
	in.mapOrder = 0
	in.Writes = nil
	in.trackWrites = false
	in.unsupportedHit = ""
	in.spec = nil
	in.expApps = nil
	in.drawMode = 0
	in.syncMaps = nil
	in.symSeeds = nil
}

func (in *Interp) newObj(v Value, label string) *Obj {
	in.nextObj++
	return &Obj{ID: in.nextObj, V: v, Epoch: in.epoch, Label: label}
}

func (in *Interp) pos(p token.Pos) string {
	if !p.IsValid() {
		return "?"
	}
	ps := in.Prog.Fset.Position(p)
	return fmt.Sprintf("%s:%d", filepath.Base(ps.Filename), ps.Line)
}

func (in *Interp) site(ins ssa.Instruction) string {
	fn := ins.Parent()
	return fn.String() + "@" + in.pos(ins.Pos())
}

func (in *Interp) goPanic(v Value, ins ssa.Instruction, runtime bool) {
	s := "?"
	if ins != nil {
		s = in.site(ins)
	}
	panic(&GoPanic{Val: v, Site: s, Runtime: runtime})
}

func (in *Interp) runtimePanic(msg string, ins ssa.Instruction) {
	in.goPanic(Iface{T: runtimeErrorType, V: &Opaque{Desc: "runtime error: " + msg}}, ins, true)
}

// runtimeErrorType is the dynamic type given to run-time panics and opaque errors: a named
// type implementing error, created once.
var runtimeErrorType, opaqueErrorType types.Type

func init() {
	mk := func(name string) types.Type {
		pkg := types.NewPackage("gosym/runtime", "runtime")
		tn := types.NewTypeName(token.NoPos, pkg, name, nil)
		named := types.NewNamed(tn, types.NewStruct(nil, nil), nil)
		sig := types.NewSignatureType(types.NewVar(token.NoPos, pkg, "e", named), nil, nil, nil,
			types.NewTuple(types.NewVar(token.NoPos, pkg, "", types.Typ[types.String])), false)
		named.AddMethod(types.NewFunc(token.NoPos, pkg, "Error", sig))
		return named
	}
	runtimeErrorType = mk("Error")
	opaqueErrorType = mk("opaqueError")
}

// ---------------------------------------------------------------------------------------
// Globals and package initialisation

func (in *Interp) global(g *ssa.Global) *Obj {
	if o, ok := in.globals[g]; ok {
		return o
	}
	o := in.newObj(in.zero(g.Type().(*types.Pointer).Elem()), "global "+g.String())
	o.Epoch = 0
	in.globals[g] = o
	return o
}

// InitPackages runs the initialisers of the in-scope packages reachable from pkg.
func (in *Interp) InitPackage(pkg *ssa.Package) {
	if f := pkg.Func("init"); f != nil {
		in.Call(f, nil, nil)
	}
}

// ---------------------------------------------------------------------------------------
// Calls

func (in *Interp) Call(fv Value, args []Value, site ssa.Instruction) Value {
	switch f := fv.(type) {
	case *ssa.Function:
		return in.callFunction(f, args, nil, site)
	case *Closure:
		return in.callFunction(f.Fn, args, f.Bind, site)
	case *Native:
		return f.Fn(in, args)
	case *ssa.Builtin:
		return in.callBuiltin(f, args, site)
	case nil:
		in.runtimePanic("invalid memory address or nil pointer dereference (nil func)", site)
	}
	panic(Unsupported{fmt.Sprintf("call of %T", fv)})
}

func (in *Interp) callFunction(fn *ssa.Function, args []Value, bind []Value, site ssa.Instruction) Value {
	fi := in.info(fn)
	if fn.Name() == "init" && fn.Signature.Recv() == nil && !fi.inScope {
		return nil
	}
	if r, ok := in.intrinsic(fn, fi, args, site); ok {
		return r
	}
	if fn.Blocks == nil {
		panic(Unsupported{"external function " + fi.fullName})
	}
	if !fi.inScope && !allowedForeign(fi.fullName) {
		panic(Unsupported{"foreign function " + fi.fullName})
	}
	if in.CallHook != nil {
		in.CallHook(fn)
	}
	in.depth++
	if in.depth > in.Limits.MaxDepth {
		panic(BudgetExceeded{"call depth", fi.fullName})
	}
	defer func() { in.depth-- }()
	fr := &frame{fn: fn, env: make(map[ssa.Value]Value, 16), harness: fi.harness}
	for i, p := range fn.Params {
		fr.env[p] = args[i]
	}
	for i, fv := range fn.FreeVars {
		fr.env[fv] = bind[i]
	}
	if fi.hasDefer || fn.Recover != nil {
		return in.runWithDefers(fr)
	}
	return in.exec(fr, fn.Blocks[0])
}

func (in *Interp) runWithDefers(fr *frame) (ret Value) {
	defer func() {
		if r := recover(); r != nil {
			gp, ok := r.(*GoPanic)
			if !ok {
				panic(r)
			}
			fr.panicking = gp
			in.runDefers(fr)
			if fr.panicking != nil {
				panic(fr.panicking)
			}
			if fr.fn.Recover != nil {
				ret = in.exec(fr, fr.fn.Recover)
			} else {
				res := fr.fn.Signature.Results()
				switch res.Len() {
				case 0:
					ret = nil
				case 1:
					ret = in.zero(res.At(0).Type())
				default:
					ret = in.zero(res)
				}
			}
		}
	}()
	return in.exec(fr, fr.fn.Blocks[0])
}

func (in *Interp) runDefers(fr *frame) {
	for len(fr.defers) > 0 {
		d := fr.defers[len(fr.defers)-1]
		fr.defers = fr.defers[:len(fr.defers)-1]
		in.deferStack = append(in.deferStack, fr)
		func() {
			defer func() {
				in.deferStack = in.deferStack[:len(in.deferStack)-1]
				if r := recover(); r != nil {
					gp, ok := r.(*GoPanic)
					if !ok {
						panic(r)
					}
					// a panic inside a deferred call replaces the current one; continue with remaining defers
					fr.panicking = gp
				}
			}()
			in.Call(d.fn, d.args, d.site)
		}()
	}
}

func allowedForeign(name string) bool {
	switch {
	case strings.HasPrefix(name, "sort.Reverse"), strings.HasPrefix(name, "(*sort.reverse)"), strings.HasPrefix(name, "(sort.reverse)"),
		strings.HasPrefix(name, "(sort.Float64Slice)"), strings.HasPrefix(name, "(sort.IntSlice)"), strings.HasPrefix(name, "(sort.StringSlice)"),
		strings.HasPrefix(name, "(*sort.Float64Slice)"), strings.HasPrefix(name, "(*sort.IntSlice)"), strings.HasPrefix(name, "(*sort.StringSlice)"),
		name == "errors.New", name == "(*errors.errorString).Error", name == "math.IsNaN", name == "math.IsInf", name == "math.Inf", name == "math.NaN",
		name == "math.Signbit", name == "math.Copysign":
		return true
	}
	return false
}

// ---------------------------------------------------------------------------------------
// Operands

func (in *Interp) get(fr *frame, v ssa.Value) Value {
	switch x := v.(type) {
	case *ssa.Const:
		return in.constVal(x)
	case *ssa.Global:
		return Pointer{O: in.global(x)}
	case *ssa.Function:
		return x
	case *ssa.Builtin:
		return x
	}
	r, ok := fr.env[v]
	if !ok {
		panic(fmt.Sprintf("engine: value %s (%T) not bound in %s", v.Name(), v, fr.fn))
	}
	return r
}

func (in *Interp) constVal(c *ssa.Const) Value {
	t := c.Type()
	if c.Value == nil {
		return in.zero(t)
	}
	switch u := t.Underlying().(type) {
	case *types.Basic:
		switch {
		case u.Info()&types.IsBoolean != 0:
			return constant.BoolVal(c.Value)
		case u.Info()&types.IsInteger != 0:
			if u.Info()&types.IsUnsigned != 0 {
				x, _ := constant.Uint64Val(constant.ToInt(c.Value))
				return int64(x)
			}
			x, _ := constant.Int64Val(constant.ToInt(c.Value))
			return x
		case u.Info()&types.IsFloat != 0:
			x, _ := constant.Float64Val(c.Value)
			return x
		case u.Info()&types.IsString != 0:
			return constant.StringVal(c.Value)
		}
	case *types.Interface:
		return Iface{}
	}
	panic(Unsupported{"constant of type " + t.String()})
}

// ---------------------------------------------------------------------------------------
// Memory

func (in *Interp) load(p Pointer, ins ssa.Instruction) Value {
	if p.O == nil {
		in.runtimePanic("invalid memory address or nil pointer dereference", ins)
	}
	return clone(loadPath(p.O.V, p.Path))
}

func (in *Interp) store(p Pointer, v Value, ins ssa.Instruction, fr *frame) {
	if p.O == nil {
		in.runtimePanic("invalid memory address or nil pointer dereference", ins)
	}
	if in.spec != nil {
		in.guardedStore(p, v)
		return
	}
	if in.trackWrites && fr != nil && !fr.harness && (p.O.Epoch < in.epoch || p.O.Owner != 0) {
		in.Writes = append(in.Writes, WriteEvent{Site: in.site(ins), Label: p.O.Label, Owned: p.O.Owner != 0})
	}
	v = clone(v)
	if len(p.Path) == 0 {
		p.O.V = v
		return
	}
	parent := loadPath(p.O.V, p.Path[:len(p.Path)-1])
	i := p.Path[len(p.Path)-1]
	switch x := parent.(type) {
	case *StructV:
		x.F[i] = v
	case *ArrayV:
		x.E[i] = v
	default:
		panic(fmt.Sprintf("engine: store through %T", parent))
	}
}

func extend(path []int, i int) []int {
	n := make([]int, len(path)+1)
	copy(n, path)
	n[len(path)] = i
	return n
}

// ---------------------------------------------------------------------------------------
// The main loop

func (in *Interp) exec(fr *frame, start *ssa.BasicBlock) Value {
	fr.block = start
	for {
		b := fr.block
		if len(b.Preds) > 1 || fr.prev == nil {
			if fr.loopCount == nil {
				fr.loopCount = map[*ssa.BasicBlock]int{}
			}
			fr.loopCount[b]++
			if fr.loopCount[b] > in.Limits.MaxLoop {
				panic(BudgetExceeded{"loop iterations", fr.fn.String() + " block " + fmt.Sprint(b.Index)})
			}
		}
		// Phis first, in parallel
		nphi := 0
		for _, ins := range b.Instrs {
			if _, ok := ins.(*ssa.Phi); ok {
				nphi++
			} else {
				break
			}
		}
		if fr.phisDone {
			fr.phisDone = false
		} else if nphi > 0 {
			idx := -1
			for i, p := range b.Preds {
				if p == fr.prev {
					idx = i
					break
				}
			}
			vals := make([]Value, nphi)
			for i := 0; i < nphi; i++ {
				vals[i] = in.get(fr, b.Instrs[i].(*ssa.Phi).Edges[idx])
			}
			for i := 0; i < nphi; i++ {
				fr.env[b.Instrs[i].(*ssa.Phi)] = vals[i]
			}
		}
		in.steps += len(b.Instrs)
		in.FnCount[fr.fn] += len(b.Instrs)
		if in.steps > in.Limits.MaxSteps {
			panic(BudgetExceeded{"steps", fr.fn.String()})
		}
		var next *ssa.BasicBlock
		for _, ins := range b.Instrs[nphi:] {
			switch x := ins.(type) {
			case *ssa.If:
				cond := in.get(fr, x.Cond)
				var taken bool
				switch c := cond.(type) {
				case bool:
					taken = c
				case *smt.Term:
					if nb, ok := in.tryIfConvert(fr, b, c); ok {
						next = nb
						goto jump
					}
					taken = in.P.DecideBool(in, c, in.site(x))
				default:
					panic(fmt.Sprintf("engine: if on %T", cond))
				}
				if taken {
					next = b.Succs[0]
				} else {
					next = b.Succs[1]
				}
			case *ssa.Jump:
				next = b.Succs[0]
			case *ssa.Return:
				switch len(x.Results) {
				case 0:
					return nil
				case 1:
					return in.get(fr, x.Results[0])
				default:
					t := make(Tuple, len(x.Results))
					for i, r := range x.Results {
						t[i] = in.get(fr, r)
					}
					return t
				}
			case *ssa.Panic:
				in.goPanic(in.get(fr, x.X), x, false)
			case *ssa.RunDefers:
				in.runDefers(fr)
			default:
				in.step(fr, ins)
			}
		}
	jump:
		if next == nil {
			panic("engine: block fell through: " + fr.fn.String())
		}
		fr.prev = b
		fr.block = next
	}
}

func (in *Interp) step(fr *frame, ins ssa.Instruction) {
	switch x := ins.(type) {
	case *ssa.Alloc:
		fr.env[x] = Pointer{O: in.newObj(in.zero(x.Type().(*types.Pointer).Elem()), x.Comment+"@"+in.pos(x.Pos()))}
	case *ssa.UnOp:
		fr.env[x] = in.unop(fr, x)
	case *ssa.BinOp:
		fr.env[x] = in.binop(x.Op, in.get(fr, x.X), in.get(fr, x.Y), x.X.Type(), x)
	case *ssa.Store:
		in.store(in.get(fr, x.Addr).(Pointer), in.get(fr, x.Val), x, fr)
	case *ssa.FieldAddr:
		p := in.get(fr, x.X).(Pointer)
		if p.O == nil {
			in.runtimePanic("invalid memory address or nil pointer dereference", x)
		}
		fr.env[x] = Pointer{O: p.O, Path: extend(p.Path, x.Field)}
	case *ssa.Field:
		fr.env[x] = clone(in.get(fr, x.X).(*StructV).F[x.Field])
	case *ssa.IndexAddr:
		idx := int(in.get(fr, x.Index).(int64))
		switch base := in.get(fr, x.X).(type) {
		case Slice:
			if idx < 0 || idx >= base.Len {
				in.runtimePanic(fmt.Sprintf("index out of range [%d] with length %d", idx, base.Len), x)
			}
			fr.env[x] = Pointer{O: base.Arr, Path: []int{base.Off + idx}}
		case Pointer:
			if base.O == nil {
				in.runtimePanic("invalid memory address or nil pointer dereference", x)
			}
			arr := loadPath(base.O.V, base.Path).(*ArrayV)
			if idx < 0 || idx >= len(arr.E) {
				in.runtimePanic(fmt.Sprintf("index out of range [%d] with length %d", idx, len(arr.E)), x)
			}
			fr.env[x] = Pointer{O: base.O, Path: extend(base.Path, idx)}
		default:
			panic(fmt.Sprintf("engine: IndexAddr on %T", base))
		}
	case *ssa.Index:
		idx := int(in.get(fr, x.Index).(int64))
		switch base := in.get(fr, x.X).(type) {
		case *ArrayV:
			if idx < 0 || idx >= len(base.E) {
				in.runtimePanic("index out of range", x)
			}
			fr.env[x] = clone(base.E[idx])
		case string:
			if idx < 0 || idx >= len(base) {
				in.runtimePanic("index out of range", x)
			}
			fr.env[x] = int64(base[idx])
		default:
			panic(fmt.Sprintf("engine: Index on %T", base))
		}
	case *ssa.Call:
		fr.env[x] = in.doCall(fr, &x.Call, x)
	case *ssa.Defer:
		fv, args := in.prepareCall(fr, &x.Call, x)
		fr.defers = append(fr.defers, deferred{fn: fv, args: args, site: x})
	case *ssa.Go:
		panic(Unsupported{"go statement at " + in.site(x)})
	case *ssa.MakeInterface:
		fr.env[x] = Iface{T: x.X.Type(), V: in.get(fr, x.X)}
	case *ssa.MakeClosure:
		b := make([]Value, len(x.Bindings))
		for i, bv := range x.Bindings {
			b[i] = in.get(fr, bv)
		}
		fr.env[x] = &Closure{Fn: x.Fn.(*ssa.Function), Bind: b}
	case *ssa.MakeMap:
		in.nextObj++
		fr.env[x] = &MapV{ID: in.nextObj, M: map[interface{}]Value{}, Epoch: in.epoch}
	case *ssa.MakeSlice:
		l := int(in.get(fr, x.Len).(int64))
		c := int(in.get(fr, x.Cap).(int64))
		if l < 0 || c < l {
			in.runtimePanic("makeslice: len out of range", x)
		}
		fr.env[x] = in.makeSlice(x.Type().Underlying().(*types.Slice).Elem(), l, c, in.pos(x.Pos()))
	case *ssa.Slice:
		fr.env[x] = in.sliceOp(fr, x)
	case *ssa.Lookup:
		fr.env[x] = in.lookup(fr, x)
	case *ssa.MapUpdate:
		m := in.get(fr, x.Map).(*MapV)
		if m == nil {
			in.runtimePanic("assignment to entry in nil map", x)
		}
		if in.trackWrites && !fr.harness && (m.Epoch < in.epoch || m.Owner != 0) {
			in.Writes = append(in.Writes, WriteEvent{Site: in.site(x), Label: "map", Owned: m.Owner != 0})
		}
		m.Set(in.get(fr, x.Key), clone(in.get(fr, x.Value)))
	case *ssa.Range:
		fr.env[x] = in.makeRange(fr, x)
	case *ssa.Next:
		fr.env[x] = in.get(fr, x.Iter).(*rangeIter).next(in, x.IsString)
	case *ssa.Extract:
		fr.env[x] = in.get(fr, x.Tuple).(Tuple)[x.Index]
	case *ssa.TypeAssert:
		fr.env[x] = in.typeAssert(fr, x)
	case *ssa.ChangeType:
		fr.env[x] = in.get(fr, x.X)
	case *ssa.ChangeInterface:
		fr.env[x] = in.get(fr, x.X)
	case *ssa.Convert:
		fr.env[x] = in.convert(in.get(fr, x.X), x.X.Type(), x.Type(), x)
	case *ssa.DebugRef:
	default:
		panic(Unsupported{fmt.Sprintf("instruction %T at %s", ins, in.site(ins))})
	}
}

func (in *Interp) makeSlice(elem types.Type, l, c int, label string) Slice {
	arr := &ArrayV{E: make([]Value, c)}
	for i := range arr.E {
		arr.E[i] = in.zero(elem)
	}
	return Slice{Arr: in.newObj(arr, "slice@"+label), Off: 0, Len: l, Cap: c}
}

func (in *Interp) prepareCall(fr *frame, c *ssa.CallCommon, site ssa.Instruction) (Value, []Value) {
	var args []Value
	var fv Value
	if c.IsInvoke() {
		recv := in.get(fr, c.Value).(Iface)
		if recv.T == nil {
			in.runtimePanic("invalid memory address or nil pointer dereference (nil interface method call "+c.Method.Name()+")", site)
		}
		fv = in.lookupMethod(recv.T, c.Method)
		args = append(args, recv.V)
	} else {
		fv = in.get(fr, c.Value)
	}
	for _, a := range c.Args {
		args = append(args, in.get(fr, a))
	}
	return fv, args
}

func (in *Interp) lookupMethod(t types.Type, m *types.Func) Value {
	if t == runtimeErrorType || t == opaqueErrorType {
		return &Native{Name: "Error", Fn: func(in *Interp, args []Value) Value { return "<error text>" }}
	}
	f := in.Prog.LookupMethod(t, m.Pkg(), m.Name())
	if f == nil {
		panic(fmt.Sprintf("engine: no method %s on %s", m.Name(), t))
	}
	return f
}

func (in *Interp) doCall(fr *frame, c *ssa.CallCommon, site ssa.Instruction) Value {
	fv, args := in.prepareCall(fr, c, site)
	return in.Call(fv, args, site)
}

// ---------------------------------------------------------------------------------------
// Operators

func (in *Interp) unop(fr *frame, x *ssa.UnOp) Value {
	v := in.get(fr, x.X)
	switch x.Op {
	case token.MUL:
		return in.load(v.(Pointer), x)
	case token.NOT:
		switch b := v.(type) {
		case bool:
			return !b
		case *smt.Term:
			return in.C.Not(b)
		}
	case token.SUB:
		switch n := v.(type) {
		case int64:
			return wrapInt(-n, x.Type())
		case float64:
			return -n
		case *smt.Term:
			return in.C.Neg(n)
		}
	case token.XOR:
		return wrapInt(^v.(int64), x.Type())
	}
	panic(Unsupported{fmt.Sprintf("unary %s on %T", x.Op, v)})
}

func basicKind(t types.Type) types.BasicKind {
	if t == nil {
		return types.Invalid
	}
	if b, ok := t.Underlying().(*types.Basic); ok {
		return b.Kind()
	}
	return types.Invalid
}

func wrapInt(v int64, t types.Type) int64 {
	switch basicKind(t) {
	case types.Int8:
		return int64(int8(v))
	case types.Int16:
		return int64(int16(v))
	case types.Int32:
		return int64(int32(v))
	case types.Uint8:
		return int64(uint8(v))
	case types.Uint16:
		return int64(uint16(v))
	case types.Uint32:
		return int64(uint32(v))
	}
	return v
}

func isUnsigned(t types.Type) bool {
	if t == nil {
		return false
	}
	if b, ok := t.Underlying().(*types.Basic); ok {
		return b.Info()&types.IsUnsigned != 0
	}
	return false
}

func (in *Interp) num(v Value) *smt.Term {
	switch n := v.(type) {
	case *smt.Term:
		return n
	case float64:
		return in.C.Num(n)
	}
	panic(fmt.Sprintf("engine: not a number: %T", v))
}

func (in *Interp) boolTerm(v Value) *smt.Term {
	switch n := v.(type) {
	case *smt.Term:
		return n
	case bool:
		return in.C.Bool(n)
	}
	panic(fmt.Sprintf("engine: not a bool: %T", v))
}

func nonFinite(f float64) bool { return math.IsNaN(f) || math.IsInf(f, 0) }

func (in *Interp) binop(op token.Token, a, b Value, t types.Type, ins ssa.Instruction) Value {
	switch x := a.(type) {
	case int64:
		y, ok := b.(int64)
		if !ok {
			break
		}
		return in.intOp(op, x, y, t, ins)
	case float64:
		switch y := b.(type) {
		case float64:
			return in.concreteFloatOp(op, x, y)
		case *smt.Term:
			return in.symFloatOp(op, a, b, ins)
		}
	case *smt.Term:
		if x.Sort == smt.SBool {
			return in.symBoolOp(op, x, in.boolTerm(b))
		}
		return in.symFloatOp(op, a, b, ins)
	case bool:
		switch y := b.(type) {
		case bool:
			switch op {
			case token.EQL:
				return x == y
			case token.NEQ:
				return x != y
			}
		case *smt.Term:
			return in.symBoolOp(op, in.C.Bool(x), y)
		}
	case string:
		y := b.(string)
		switch op {
		case token.ADD:
			return x + y
		case token.EQL:
			return x == y
		case token.NEQ:
			return x != y
		case token.LSS:
			return x < y
		case token.LEQ:
			return x <= y
		case token.GTR:
			return x > y
		case token.GEQ:
			return x >= y
		}
	}
	switch op {
	case token.EQL:
		return in.equal(a, b)
	case token.NEQ:
		e := in.equal(a, b)
		if eb, ok := e.(bool); ok {
			return !eb
		}
		return in.C.Not(e.(*smt.Term))
	}
	panic(Unsupported{fmt.Sprintf("binary %s on %T, %T at %s", op, a, b, in.site(ins))})
}

func (in *Interp) symBoolOp(op token.Token, x, y *smt.Term) Value {
	switch op {
	case token.EQL:
		return unwrapBool(in.C.BEq(x, y))
	case token.NEQ:
		return unwrapBool(in.C.Not(in.C.BEq(x, y)))
	case token.AND:
		return unwrapBool(in.C.And(x, y))
	case token.OR:
		return unwrapBool(in.C.Or(x, y))
	}
	panic(Unsupported{"bool op " + op.String()})
}

func unwrapBool(t *smt.Term) Value {
	if t.Op == smt.OConstB {
		return t.B
	}
	return t
}

func unwrapNum(t *smt.Term) Value {
	if t.Op == smt.OConstN && t.R == nil {
		return t.F
	}
	return t
}

// concreteFloatOp: in REAL mode arithmetic on two concrete floats is carried out exactly over the
// rationals (the result becomes an exact constant term when it is not a float64), so that the same
// expression means the same number whether its operands happen to be concrete or symbolic on a path.
func (in *Interp) concreteFloatOp(op token.Token, x, y float64) Value {
	if in.C == nil || in.C.Mode != smt.REAL || in.conc != nil || nonFinite(x) || nonFinite(y) {
		return floatOp(op, x, y)
	}
	switch op {
	case token.ADD, token.SUB, token.MUL, token.QUO:
	default:
		return floatOp(op, x, y)
	}
	if op == token.QUO && y == 0 {
		return floatOp(op, x, y)
	}
	native := floatOp(op, x, y).(float64)
	if nonFinite(native) {
		return native
	}
	rx, ry := new(big.Rat), new(big.Rat)
	rx.SetFloat64(x)
	ry.SetFloat64(y)
	r := new(big.Rat)
	switch op {
	case token.ADD:
		r.Add(rx, ry)
	case token.SUB:
		r.Sub(rx, ry)
	case token.MUL:
		r.Mul(rx, ry)
	case token.QUO:
		r.Quo(rx, ry)
	}
	if f, exact := r.Float64(); exact {
		return f
	}
	return in.C.Rat(r)
}

func floatOp(op token.Token, x, y float64) Value {
	switch op {
	case token.ADD:
		return x + y
	case token.SUB:
		return x - y
	case token.MUL:
		return x * y
	case token.QUO:
		return x / y
	case token.EQL:
		return x == y
	case token.NEQ:
		return x != y
	case token.LSS:
		return x < y
	case token.LEQ:
		return x <= y
	case token.GTR:
		return x > y
	case token.GEQ:
		return x >= y
	}
	panic(Unsupported{"float op " + op.String()})
}

// sign classification of a symbolic number by forking: -1, 0, +1
func (in *Interp) signOf(t *smt.Term, why string) int {
	zero := in.C.Num(0)
	if in.P.DecideBool(in, in.C.Eq(t, zero), why+" ==0") {
		return 0
	}
	if in.P.DecideBool(in, in.C.Lt(t, zero), why+" <0") {
		return -1
	}
	return 1
}

func (in *Interp) symFloatOp(op token.Token, a, b Value, ins ssa.Instruction) Value {
	c := in.C
	// A concrete non-finite operand (it can only come from a division by zero on this path)
	// against a finite symbolic operand: IEEE rules, symbolic operands are assumed finite.
	if c.Mode == smt.REAL {
		if af, ok := a.(float64); ok && nonFinite(af) {
			return in.nonFiniteOp(op, af, b.(*smt.Term), true, ins)
		}
		if bf, ok := b.(float64); ok && nonFinite(bf) {
			return in.nonFiniteOp(op, bf, a.(*smt.Term), false, ins)
		}
	}
	x, y := in.num(a), in.num(b)
	switch op {
	case token.ADD:
		return unwrapNum(c.Add(x, y))
	case token.SUB:
		return unwrapNum(c.Sub(x, y))
	case token.MUL:
		return unwrapNum(c.Mul(x, y))
	case token.QUO:
		if c.Mode == smt.REAL && y.Op != smt.OConstN {
			// real division is partial: split on a zero divisor and follow IEEE there
			if in.P.DecideBool(in, c.Eq(y, c.Num(0)), in.site(ins)+" divisor==0") {
				var s int
				if xf, ok := a.(float64); ok {
					switch {
					case xf > 0:
						s = 1
					case xf < 0:
						s = -1
					}
				} else {
					s = in.signOf(x, in.site(ins)+" dividend")
				}
				// the sign of a zero divisor is not tracked in REAL mode: +0 is assumed
				switch s {
				case 0:
					return math.NaN()
				case 1:
					return math.Inf(1)
				default:
					return math.Inf(-1)
				}
			}
		}
		if y.Op == smt.OConstN && y.F == 0 {
			s := in.signOf(x, in.site(ins)+" dividend")
			neg := math.Signbit(y.F)
			switch {
			case s == 0:
				return math.NaN()
			case (s > 0) != neg:
				return math.Inf(1)
			default:
				return math.Inf(-1)
			}
		}
		return unwrapNum(c.Div(x, y))
	case token.EQL:
		return unwrapBool(c.Eq(x, y))
	case token.NEQ:
		return unwrapBool(c.Ne(x, y))
	case token.LSS:
		return unwrapBool(c.Lt(x, y))
	case token.LEQ:
		return unwrapBool(c.Le(x, y))
	case token.GTR:
		return unwrapBool(c.Gt(x, y))
	case token.GEQ:
		return unwrapBool(c.Ge(x, y))
	}
	panic(Unsupported{"float op " + op.String()})
}

// nonFiniteOp: nf (NaN/±Inf, concrete) op t (finite symbolic); nfLeft tells the operand order.
func (in *Interp) nonFiniteOp(op token.Token, nf float64, t *smt.Term, nfLeft bool, ins ssa.Instruction) Value {
	// pick a finite representative of t's sign class and compute natively
	rep := func() float64 {
		switch in.signOf(t, in.site(ins)+" operand of non-finite arithmetic") {
		case 0:
			return 0
		case 1:
			return 1
		}
		return -1
	}
	var r float64
	switch op {
	case token.ADD, token.SUB, token.EQL, token.NEQ, token.LSS, token.LEQ, token.GTR, token.GEQ:
		r = 1 // any finite value behaves the same
	case token.MUL, token.QUO:
		r = rep()
	}
	if nfLeft {
		return floatOp(op, nf, r)
	}
	return floatOp(op, r, nf)
}

func (in *Interp) intOp(op token.Token, x, y int64, t types.Type, ins ssa.Instruction) Value {
	uns := isUnsigned(t)
	switch op {
	case token.ADD:
		return wrapInt(x+y, t)
	case token.SUB:
		return wrapInt(x-y, t)
	case token.MUL:
		return wrapInt(x*y, t)
	case token.QUO:
		if y == 0 {
			in.runtimePanic("integer divide by zero", ins)
		}
		if uns {
			return wrapInt(int64(uint64(x)/uint64(y)), t)
		}
		return wrapInt(x/y, t)
	case token.REM:
		if y == 0 {
			in.runtimePanic("integer divide by zero", ins)
		}
		if uns {
			return wrapInt(int64(uint64(x)%uint64(y)), t)
		}
		return wrapInt(x%y, t)
	case token.AND:
		return x & y
	case token.OR:
		return x | y
	case token.XOR:
		return wrapInt(x^y, t)
	case token.AND_NOT:
		return x &^ y
	case token.SHL:
		return wrapInt(x<<uint64(y), t)
	case token.SHR:
		if uns {
			return wrapInt(int64(uint64(x)>>uint64(y)), t)
		}
		return wrapInt(x>>uint64(y), t)
	case token.EQL:
		return x == y
	case token.NEQ:
		return x != y
	case token.LSS:
		if uns {
			return uint64(x) < uint64(y)
		}
		return x < y
	case token.LEQ:
		if uns {
			return uint64(x) <= uint64(y)
		}
		return x <= y
	case token.GTR:
		if uns {
			return uint64(x) > uint64(y)
		}
		return x > y
	case token.GEQ:
		if uns {
			return uint64(x) >= uint64(y)
		}
		return x >= y
	}
	panic(Unsupported{"int op " + op.String()})
}

// equal implements Go's == on arbitrary comparable values; the result is bool or a Bool term.
func (in *Interp) equal(a, b Value) Value {
	switch x := a.(type) {
	case nil:
		return b == nil
	case bool:
		switch y := b.(type) {
		case bool:
			return x == y
		case *smt.Term:
			return unwrapBool(in.C.BEq(in.C.Bool(x), y))
		}
	case int64:
		y, ok := b.(int64)
		return ok && x == y
	case string:
		y, ok := b.(string)
		return ok && x == y
	case float64:
		switch y := b.(type) {
		case float64:
			return x == y
		case *smt.Term:
			return unwrapBool(in.C.Eq(in.C.Num(x), y))
		}
	case *smt.Term:
		if x.Sort == smt.SBool {
			return unwrapBool(in.C.BEq(x, in.boolTerm(b)))
		}
		return unwrapBool(in.C.Eq(x, in.num(b)))
	case Pointer:
		y, ok := b.(Pointer)
		if !ok {
			return false
		}
		if x.O != y.O || len(x.Path) != len(y.Path) {
			return false
		}
		for i := range x.Path {
			if x.Path[i] != y.Path[i] {
				return false
			}
		}
		return true
	case Slice:
		y, ok := b.(Slice)
		// only comparison with nil is legal Go
		return ok && x.Arr == nil && y.Arr == nil
	case *MapV:
		y, ok := b.(*MapV)
		return ok && x == y
	case Iface:
		y, ok := b.(Iface)
		if !ok {
			return false
		}
		if x.T == nil || y.T == nil {
			return x.T == nil && y.T == nil
		}
		if !types.Identical(x.T, y.T) {
			return false
		}
		return in.equal(x.V, y.V)
	case *StructV:
		y, ok := b.(*StructV)
		if !ok || len(x.F) != len(y.F) {
			return false
		}
		var acc Value = true
		for i := range x.F {
			acc = in.andV(acc, in.equal(x.F[i], y.F[i]))
		}
		return acc
	case *ArrayV:
		y, ok := b.(*ArrayV)
		if !ok || len(x.E) != len(y.E) {
			return false
		}
		var acc Value = true
		for i := range x.E {
			acc = in.andV(acc, in.equal(x.E[i], y.E[i]))
		}
		return acc
	case *ssa.Function, *Closure, *Native, *ssa.Builtin:
		return false // only comparable with nil
	case *Opaque:
		y, ok := b.(*Opaque)
		return ok && x == y
	}
	panic(Unsupported{fmt.Sprintf("== on %T, %T", a, b)})
}

func (in *Interp) andV(a, b Value) Value {
	if x, ok := a.(bool); ok {
		if !x {
			return false
		}
		return b
	}
	if y, ok := b.(bool); ok {
		if !y {
			return false
		}
		return a
	}
	return unwrapBool(in.C.And(a.(*smt.Term), b.(*smt.Term)))
}

// ---------------------------------------------------------------------------------------
// Conversions

func (in *Interp) convert(v Value, from, to types.Type, ins ssa.Instruction) Value {
	fk, tk := from.Underlying(), to.Underlying()
	fb, fok := fk.(*types.Basic)
	tb, tok := tk.(*types.Basic)
	if fok && tok {
		switch {
		case fb.Info()&types.IsInteger != 0 && tb.Info()&types.IsInteger != 0:
			return wrapInt(v.(int64), to)
		case fb.Info()&types.IsInteger != 0 && tb.Info()&types.IsFloat != 0:
			if isUnsigned(from) {
				return float64(uint64(v.(int64)))
			}
			return float64(v.(int64))
		case fb.Info()&types.IsFloat != 0 && tb.Info()&types.IsFloat != 0:
			if tb.Kind() == types.Float32 {
				if f, ok := v.(float64); ok {
					return float64(float32(f))
				}
				panic(Unsupported{"symbolic float32 conversion"})
			}
			return v
		case fb.Info()&types.IsFloat != 0 && tb.Info()&types.IsInteger != 0:
			switch f := v.(type) {
			case float64:
				if nonFinite(f) || math.Abs(f) >= 9.2e18 {
					// implementation-defined in Go; amd64 yields MinInt64
					return wrapInt(math.MinInt64, to)
				}
				return wrapInt(int64(f), to)
			case *smt.Term:
				return wrapInt(in.P.ConcretizeInt(in, f, in.site(ins)), to)
			}
		case fb.Info()&types.IsString != 0 && tb.Info()&types.IsString != 0:
			return v
		case fb.Info()&types.IsInteger != 0 && tb.Info()&types.IsString != 0:
			return string(rune(v.(int64)))
		}
	}
	// string <-> []byte / []rune
	if fok && fb.Info()&types.IsString != 0 {
		if ts, ok := tk.(*types.Slice); ok {
			s := v.(string)
			if basicKind(ts.Elem()) == types.Uint8 {
				sl := in.makeSlice(ts.Elem(), len(s), len(s), "[]byte(string)")
				for i := 0; i < len(s); i++ {
					sl.Arr.V.(*ArrayV).E[i] = int64(s[i])
				}
				return sl
			}
			rs := []rune(s)
			sl := in.makeSlice(ts.Elem(), len(rs), len(rs), "[]rune(string)")
			for i, r := range rs {
				sl.Arr.V.(*ArrayV).E[i] = int64(r)
			}
			return sl
		}
	}
	if tok && tb.Info()&types.IsString != 0 {
		if fs, ok := fk.(*types.Slice); ok {
			s := v.(Slice)
			if basicKind(fs.Elem()) == types.Uint8 {
				bs := make([]byte, s.Len)
				for i := range bs {
					bs[i] = byte(s.Arr.V.(*ArrayV).E[s.Off+i].(int64))
				}
				return string(bs)
			}
			rs := make([]rune, s.Len)
			for i := range rs {
				rs[i] = rune(s.Arr.V.(*ArrayV).E[s.Off+i].(int64))
			}
			return string(rs)
		}
	}
	if _, ok := tk.(*types.Pointer); ok {
		return v
	}
	panic(Unsupported{fmt.Sprintf("conversion %s -> %s at %s", from, to, in.site(ins))})
}

// ---------------------------------------------------------------------------------------
// Slices, maps, ranges, type assertions

func (in *Interp) sliceOp(fr *frame, x *ssa.Slice) Value {
	geti := func(v ssa.Value, def int) int {
		if v == nil {
			return def
		}
		return int(in.get(fr, v).(int64))
	}
	switch base := in.get(fr, x.X).(type) {
	case string:
		lo, hi := geti(x.Low, 0), geti(x.High, len(base))
		if lo < 0 || hi < lo || hi > len(base) {
			in.runtimePanic("slice bounds out of range", x)
		}
		return base[lo:hi]
	case Slice:
		lo, hi, mx := geti(x.Low, 0), geti(x.High, base.Len), geti(x.Max, base.Cap)
		if lo < 0 || hi < lo || mx < hi || mx > base.Cap {
			in.runtimePanic(fmt.Sprintf("slice bounds out of range [%d:%d:%d] with capacity %d", lo, hi, mx, base.Cap), x)
		}
		if base.Arr == nil {
			return Slice{}
		}
		return Slice{Arr: base.Arr, Off: base.Off + lo, Len: hi - lo, Cap: mx - lo}
	case Pointer:
		if base.O == nil {
			in.runtimePanic("nil pointer dereference (slice of nil array pointer)", x)
		}
		if len(base.Path) != 0 {
			panic(Unsupported{"slicing an array embedded in another object"})
		}
		arr := base.O.V.(*ArrayV)
		lo, hi, mx := geti(x.Low, 0), geti(x.High, len(arr.E)), geti(x.Max, len(arr.E))
		if lo < 0 || hi < lo || mx < hi || mx > len(arr.E) {
			in.runtimePanic("slice bounds out of range", x)
		}
		return Slice{Arr: base.O, Off: lo, Len: hi - lo, Cap: mx - lo}
	}
	panic(Unsupported{"slice of " + x.X.Type().String()})
}

func (in *Interp) lookup(fr *frame, x *ssa.Lookup) Value {
	switch m := in.get(fr, x.X).(type) {
	case *MapV:
		v, ok := m.Get(in.get(fr, x.Index))
		if !ok {
			v = in.zero(x.X.Type().Underlying().(*types.Map).Elem())
		} else {
			v = clone(v)
		}
		if x.CommaOk {
			return Tuple{v, ok}
		}
		return v
	case string:
		idx := int(in.get(fr, x.Index).(int64))
		if idx < 0 || idx >= len(m) {
			in.runtimePanic("index out of range", x)
		}
		return int64(m[idx])
	}
	panic(Unsupported{"lookup in " + x.X.Type().String()})
}

type rangeIter struct {
	m    *MapV
	keys []Value
	s    string
	i    int
	elemZero, keyZero Value
}

func (in *Interp) makeRange(fr *frame, x *ssa.Range) Value {
	switch m := in.get(fr, x.X).(type) {
	case *MapV:
		it := &rangeIter{m: m}
		mt := x.X.Type().Underlying().(*types.Map)
		it.keyZero, it.elemZero = in.zero(mt.Key()), in.zero(mt.Elem())
		if m != nil {
			it.keys = in.P.MapOrder(in, m, in.site(x))
		}
		return it
	case string:
		return &rangeIter{s: m, keyZero: int64(0), elemZero: int64(0)}
	}
	panic(Unsupported{"range over " + x.X.Type().String()})
}

func (it *rangeIter) next(in *Interp, isString bool) Value {
	if isString {
		if it.i >= len(it.s) {
			return Tuple{false, int64(0), int64(0)}
		}
		for j, r := range it.s[it.i:] {
			_ = j
			idx := it.i
			it.i += len(string(r))
			if r == 0xFFFD {
				it.i = idx + 1
			}
			return Tuple{true, int64(idx), int64(r)}
		}
	}
	for it.i < len(it.keys) {
		k := it.keys[it.i]
		it.i++
		if v, ok := it.m.Get(k); ok {
			return Tuple{true, k, clone(v)}
		}
	}
	return Tuple{false, it.keyZero, it.elemZero}
}

func (in *Interp) implements(dyn types.Type, iface *types.Interface) bool {
	return types.Implements(dyn, iface)
}

func (in *Interp) typeAssert(fr *frame, x *ssa.TypeAssert) Value {
	v := in.get(fr, x.X).(Iface)
	var ok bool
	if v.T != nil {
		if it, isI := x.AssertedType.Underlying().(*types.Interface); isI {
			ok = in.implements(v.T, it)
		} else {
			ok = types.Identical(v.T, x.AssertedType)
		}
	}
	var res Value
	if ok {
		if _, isI := x.AssertedType.Underlying().(*types.Interface); isI {
			res = v
		} else {
			res = v.V
		}
	} else {
		if !x.CommaOk {
			in.runtimePanic(fmt.Sprintf("interface conversion: interface is %v, not %v", v.T, x.AssertedType), x)
		}
		res = in.zero(x.AssertedType)
	}
	if x.CommaOk {
		return Tuple{res, ok}
	}
	return res
}

// ---------------------------------------------------------------------------------------
// Builtins

func (in *Interp) callBuiltin(b *ssa.Builtin, args []Value, site ssa.Instruction) Value {
	switch b.Name() {
	case "len":
		switch x := args[0].(type) {
		case string:
			return int64(len(x))
		case Slice:
			return int64(x.Len)
		case *MapV:
			if x == nil {
				return int64(0)
			}
			return int64(len(x.Keys))
		case *ArrayV:
			return int64(len(x.E))
		case Pointer:
			return int64(len(loadPath(x.O.V, x.Path).(*ArrayV).E))
		}
	case "cap":
		switch x := args[0].(type) {
		case Slice:
			return int64(x.Cap)
		case *ArrayV:
			return int64(len(x.E))
		}
	case "append":
		return in.appendOp(args[0].(Slice), args[1], b, site)
	case "copy":
		dst := args[0].(Slice)
		n := dst.Len
		switch src := args[1].(type) {
		case Slice:
			if src.Len < n {
				n = src.Len
			}
			tmp := make([]Value, n)
			for i := 0; i < n; i++ {
				tmp[i] = clone(src.Arr.V.(*ArrayV).E[src.Off+i])
			}
			for i := 0; i < n; i++ {
				in.noteSliceWrite(dst, site)
				dst.Arr.V.(*ArrayV).E[dst.Off+i] = tmp[i]
			}
		case string:
			if len(src) < n {
				n = len(src)
			}
			for i := 0; i < n; i++ {
				dst.Arr.V.(*ArrayV).E[dst.Off+i] = int64(src[i])
			}
		}
		return int64(n)
	case "delete":
		m := args[0].(*MapV)
		if m != nil {
			if in.trackWrites && (m.Epoch < in.epoch || m.Owner != 0) {
				in.Writes = append(in.Writes, WriteEvent{Site: in.site(site), Label: "map delete", Owned: m.Owner != 0})
			}
			m.Delete(args[1])
		}
		return nil
	case "panic":
		in.goPanic(args[0], site, false)
	case "recover":
		if len(in.deferStack) > 0 {
			fr := in.deferStack[len(in.deferStack)-1]
			if fr.panicking != nil {
				v := fr.panicking.Val
				fr.panicking = nil
				if _, ok := v.(Iface); !ok {
					v = Iface{T: types.Typ[types.String], V: v}
				}
				return v
			}
		}
		return Iface{}
	case "print", "println":
		return nil
	case "ssa:wrapnilchk":
		return args[0]
	case "min", "max":
		acc := args[0]
		for _, a := range args[1:] {
			lt := in.binop(token.LSS, a, acc, nil, site)
			take, ok := lt.(bool)
			if !ok {
				take = in.P.DecideBool(in, lt.(*smt.Term), "builtin "+b.Name())
			}
			if (b.Name() == "min") == take {
				acc = a
			}
		}
		return acc
	}
	panic(Unsupported{"builtin " + b.Name()})
}

func (in *Interp) noteSliceWrite(s Slice, site ssa.Instruction) {
	if in.trackWrites && s.Arr != nil && (s.Arr.Epoch < in.epoch || s.Arr.Owner != 0) {
		fn := site.Parent()
		if !in.info(fn).harness {
			in.Writes = append(in.Writes, WriteEvent{Site: in.site(site), Label: s.Arr.Label, Owned: s.Arr.Owner != 0})
		}
	}
}

func hasPointers(t types.Type) bool {
	switch u := t.Underlying().(type) {
	case *types.Basic:
		return u.Kind() == types.String || u.Kind() == types.UnsafePointer
	case *types.Struct:
		for i := 0; i < u.NumFields(); i++ {
			if hasPointers(u.Field(i).Type()) {
				return true
			}
		}
		return false
	case *types.Array:
		return u.Len() > 0 && hasPointers(u.Elem())
	}
	return true
}

var growCache = map[[4]int]int{}
var growMu sync.Mutex

// grownCap asks the real runtime what capacity append produces for a slice with the given
// element size / pointer-ness, length and capacity when n more elements are appended.
func grownCap(elemSize int, ptrs bool, l, c, n int) int {
	p := 0
	if ptrs {
		p = 1
	}
	key := [4]int{elemSize*2 + p, l, c, n}
	growMu.Lock()
	defer growMu.Unlock()
	if r, ok := growCache[key]; ok {
		return r
	}
	var et reflect.Type
	if elemSize == 0 {
		et = reflect.TypeOf(struct{}{})
	} else if ptrs {
		et = reflect.ArrayOf(elemSize/8, reflect.TypeOf(unsafe.Pointer(nil)))
	} else {
		et = reflect.ArrayOf(elemSize, reflect.TypeOf(byte(0)))
	}
	st := reflect.SliceOf(et)
	s := reflect.MakeSlice(st, l, c)
	add := reflect.MakeSlice(st, n, n)
	r := reflect.AppendSlice(s, add).Cap()
	growCache[key] = r
	return r
}

func (in *Interp) appendOp(s Slice, more Value, b *ssa.Builtin, site ssa.Instruction) Value {
	var add []Value
	switch m := more.(type) {
	case Slice:
		for i := 0; i < m.Len; i++ {
			add = append(add, clone(m.Arr.V.(*ArrayV).E[m.Off+i]))
		}
	case string:
		for i := 0; i < len(m); i++ {
			add = append(add, int64(m[i]))
		}
	}
	if len(add) == 0 {
		return s
	}
	newLen := s.Len + len(add)
	if newLen <= s.Cap {
		arr := s.Arr.V.(*ArrayV)
		for i, v := range add {
			in.noteSliceWrite(s, site)
			arr.E[s.Off+s.Len+i] = v
		}
		return Slice{Arr: s.Arr, Off: s.Off, Len: newLen, Cap: s.Cap}
	}
	// grow: the element type comes from the call's static type
	var elem types.Type
	if call, ok := site.(ssa.CallInstruction); ok {
		elem = call.Common().Args[0].Type().Underlying().(*types.Slice).Elem()
	} else {
		panic(Unsupported{"append without call site"})
	}
	size := int(in.Sizes.Sizeof(elem))
	nc := grownCap(size, hasPointers(elem), s.Len, s.Cap, len(add))
	ns := in.makeSlice(elem, newLen, nc, in.pos(site.Pos()))
	arr := ns.Arr.V.(*ArrayV)
	for i := 0; i < s.Len; i++ {
		arr.E[i] = clone(s.Arr.V.(*ArrayV).E[s.Off+i])
	}
	for i, v := range add {
		arr.E[s.Len+i] = v
	}
	return ns
}
