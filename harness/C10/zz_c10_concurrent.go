//go:build verif

//verif:dir zz_pipeline
package zz_pipeline

import (
	"github.com/Azbesciak/RealDecisionMaker/lib/model"
	rt "github.com/Azbesciak/RealDecisionMaker/lib/zz_verifrt"
)

//verif:bounds C10 HC10_no_shared_writes: non-interference reduction - for every method x (no bias | one bias variant), valid requests and requests rejected with a validation error (unknown bias, missing weight/threshold parameter, duplicate criterion), the engine tracks every store executed by repository code during the request and the obligation is that none targets an object that existed before the request started (registries, package variables, anything reachable from them) and none uses a goroutine; a second identical request runs afterwards under the same obligation. Request shapes as in C09.
//verif:outside C10: schedules are not enumerated: the claim is 'no shared location is written, hence any interleaving equals some sequential order'; gin / net/http / log / reflect internals are trusted to be internally synchronised; the native replay of a finding uses the race detector (8 goroutines x 50 iterations), which confirms but cannot refute
//verif:assume C10: Go memory model: concurrent executions that share only reads are race free and equivalent to running them one at a time

func c10break(dm *model.DecisionMaker, how string) {
	switch how {
	case "unknown-bias":
		dm.Biases = append(dm.Biases, map[string]interface{}{"name": "no-such-bias"})
	case "missing-params":
		dm.MethodParameters = map[string]interface{}{}
	case "duplicate-criterion":
		dm.Criteria = append(dm.Criteria, dm.Criteria[0])
	case "unknown-alternative":
		dm.ChoseToMake = append(dm.ChoseToMake, "zz")
	}
}

//verif:harness HC10_no_shared_writes mode=REAL race=true reach=success-path,panic-path
func HC10_no_shared_writes() {
	c := ChooseStd(BiasVariants)
	how := rt.OneOf("break", "valid", "unknown-bias", "missing-params", "duplicate-criterion", "unknown-alternative")
	dm := c.Build("")
	c10break(dm, how)
	dm2 := c.Build("")
	c10break(dm2, how)
	if rt.RaceMode() {
		// native confirmation run: concurrent identical requests are the first use of the registries in the process
		RaceRun(func(int) *model.DecisionMaker {
			d := c.Build("")
			c10break(d, how)
			return d
		}, 1, nil)
	}
	rt.Own(dm)
	rt.Own(dm2)
	rt.Epoch()
	out := Decide(dm)
	rt.Assert("C10.no-shared-write", rt.SharedWrites() == 0)
	if out.Panicked {
		rt.Reach("panic-path")
	} else {
		rt.Reach("success-path")
	}
	// an identical request afterwards (as a concurrent twin would run)
	rt.Epoch()
	out2 := Decide(dm2)
	rt.Assert("C10.no-shared-write.second-identical-request", rt.SharedWrites() == 0)
	rt.Assert("C10.identical-requests-same-verdict", out.Panicked == out2.Panicked)
	if !out.Panicked && !out2.Panicked {
		rt.Assert("C10.identical-requests-same-response", rt.DeepEqual(out.Choice, out2.Choice))
	}
	if rt.RaceMode() {
		RaceRun(func(int) *model.DecisionMaker {
			d := c.Build("")
			c10break(d, how)
			return d
		}, 1, out)
	}
}

