package main

import (
	"bytes"
	"context"
	"crypto/sha256"
	"encoding/json"
	"fmt"
	"math/rand"
	"os"
	"os/exec"
	"path/filepath"
	"regexp"
	"sort"
	"strings"
	"time"

	"gosym/sym"
)

type replayer struct {
	files   map[string]string
	scratch string
	bins    map[string]string // dir -> test binary ("" = build failed)
	buildErr map[string]string
	specsByDir map[string][]string
}

func newReplayer(files map[string]string) *replayer {
	d, err := os.MkdirTemp("", "gosym-replay-")
	if err != nil {
		panic(err)
	}
	return &replayer{files: files, scratch: d, bins: map[string]string{}, buildErr: map[string]string{}, specsByDir: map[string][]string{}}
}

func (r *replayer) cleanup() { os.RemoveAll(r.scratch) }

var pkgRe = regexp.MustCompile(`(?m)^package\s+(\w+)`)

// binary builds (once) the native test binary of the package a harness lives in, from
// /repo's working tree plus the overlaid harness files.
func (r *replayer) binary(hs harnessSpec) (string, error) {
	race := hs.Opts["race"] == "true"
	binKey := hs.Dir
	if race {
		binKey += "#race"
	}
	if b, ok := r.bins[binKey]; ok {
		if b == "" {
			return "", fmt.Errorf("%s", r.buildErr[binKey])
		}
		return b, nil
	}
	src, _ := os.ReadFile(hs.File)
	pm := pkgRe.FindSubmatch(src)
	if pm == nil {
		return "", fmt.Errorf("no package clause in %s", hs.File)
	}
	// every harness function declared in files of this dir
	var names []string
	for dst, s := range r.files {
		rel, _ := filepath.Rel(filepath.Join(*flagRepo, "lib"), filepath.Dir(dst))
		if rel != hs.Dir {
			continue
		}
		b, _ := os.ReadFile(s)
		for _, hm := range harnessRe.FindAllSubmatch(b, -1) {
			names = append(names, string(hm[1]))
		}
	}
	sort.Strings(names)
	var tb strings.Builder
	fmt.Fprintf(&tb, "//go:build verif\n\npackage %s\n\nimport (\n\t\"testing\"\n\tverifrtReplay \"%s/zz_verifrt\"\n)\n\nfunc TestVerifReplay(t *testing.T) {\n", pm[1], libPath)
	fmt.Fprintf(&tb, "\tverifrtReplay.Main(map[string]func(){\n")
	for _, n := range names {
		fmt.Fprintf(&tb, "\t\t%q: %s,\n", n, n)
	}
	fmt.Fprintf(&tb, "\t})\n}\n")
	key := strings.ReplaceAll(hs.Dir, "/", "_")
	if race {
		key += "_race"
	}
	testFile := filepath.Join(r.scratch, key+"_replay_test.go")
	os.WriteFile(testFile, []byte(tb.String()), 0o644)
	ov := map[string]map[string]string{"Replace": {}}
	for dst, s := range r.files {
		ov["Replace"][dst] = s
	}
	ov["Replace"][filepath.Join(*flagRepo, "lib", hs.Dir, "zz_replay_test.go")] = testFile
	ovb, _ := json.Marshal(ov)
	ovFile := filepath.Join(r.scratch, key+"_overlay.json")
	os.WriteFile(ovFile, ovb, 0o644)
	bin := filepath.Join(r.scratch, key+".test")
	args := []string{"test", "-c", "-vet=off", "-tags", "verif", "-overlay", ovFile, "-o", bin}
	if race {
		args = append(args, "-race")
	}
	args = append(args, "./"+hs.Dir)
	cmd := exec.Command("go", args...)
	cmd.Dir = filepath.Join(*flagRepo, "lib")
	cmd.Env = append(os.Environ(), "GOFLAGS=-mod=mod", "GOPROXY=off", "GOSUMDB=off", "GOTOOLCHAIN=local")
	out, err := cmd.CombinedOutput()
	if err != nil {
		r.bins[binKey] = ""
		r.buildErr[binKey] = fmt.Sprintf("native build failed: %v\n%s", err, out)
		return "", fmt.Errorf("%s", r.buildErr[binKey])
	}
	r.bins[binKey] = bin
	return bin, nil
}

func (r *replayer) runNative(hs harnessSpec, env []string, timeout time.Duration) (string, bool) {
	bin, err := r.binary(hs)
	if err != nil {
		return err.Error(), false
	}
	ctx, cancel := context.WithTimeout(context.Background(), timeout)
	defer cancel()
	cmd := exec.CommandContext(ctx, bin, "-test.run", "^TestVerifReplay$", "-test.count=1", "-test.v")
	cmd.Dir = filepath.Join(*flagRepo, "lib", hs.Dir)
	if st, err := os.Stat(cmd.Dir); err != nil || !st.IsDir() {
		cmd.Dir = filepath.Join(*flagRepo, "lib") // overlay-only package directory
	}
	cmd.Env = append(os.Environ(), env...)
	var buf bytes.Buffer
	cmd.Stdout = &buf
	cmd.Stderr = &buf
	err = cmd.Run()
	timedOut := ctx.Err() == context.DeadlineExceeded
	out := buf.String()
	if err != nil && out == "" {
		out = "native run failed: " + err.Error()
	}
	if len(out) > 8_000_000 {
		out = out[:4_000_000] + "\n…\n" + out[len(out)-4_000_000:]
	}
	if timedOut {
		out += "\nVERIF-TIMEOUT"
	}
	_ = err
	return out, timedOut
}

// replay runs one counterexample against the real build; ok means it reproduced.
func (r *replayer) replay(hs harnessSpec, tier string, v sym.Violation) (string, bool, string) {
	rec := map[string]interface{}{
		"property":  *flagProp,
		"harness":   hs.Name,
		"tier":      tier,
		"assertion": v.Assert,
		"arith_mode": hs.Mode.String(),
		"values":    v.Model,
		"decisions": fmt.Sprint(v.Decisions),
		"note":      v.Note,
		"known_finding": v.KF,
		"native_cmd": fmt.Sprintf("cd %s && ./check --replay <this file>", *flagVerif),
	}
	b, _ := json.MarshalIndent(rec, "", " ")
	h := sha256.Sum256(b)
	name := fmt.Sprintf("%s-%s-%x.json", hs.Name, sanitize(v.Assert), h[:6])
	tmp := filepath.Join(r.scratch, name)
	os.WriteFile(tmp, b, 0o644)
	env := []string{"VERIF_REPLAY=" + tmp}
	limit := 30 * time.Second
	if hs.Opts["race"] == "true" {
		env = append(env, "VERIF_RACE=1")
		limit = 180 * time.Second
	}
	out, timedOut := r.runNative(hs, env, limit)
	ok := false
	instrumented := strings.Contains(v.Assert, "no-shared-write") || strings.Contains(v.Assert, "no-state-kept")
	if instrumented {
		// engine-level instrumentation (store tracking): confirmed natively by the race detector or by a diverging concurrent response
		ok = strings.Contains(out, "DATA RACE") || strings.Contains(out, "concurrent-equals-sequential")
		if !ok {
			return "", false, out
		}
	}
	switch {
	case instrumented:
	default:
		switch v.Assert {
	case "uncaught-panic":
		ok = strings.Contains(out, "outcome=panicked")
	case "budget":
		ok = timedOut || strings.Contains(out, "stack overflow") || strings.Contains(out, "goroutine stack exceeds")
		default:
			ok = strings.Contains(out, fmt.Sprintf("VERIF-ASSERT-FAILED harness=%s id=%s\n", hs.Name, v.Assert))
			if !ok && hs.Opts["fatal"] == "violation" {
				// harnesses of "the process survives every request": a native replay that kills the process or never returns confirms the counterexample
				ok = timedOut || strings.Contains(out, "stack overflow") || strings.Contains(out, "goroutine stack exceeds") || strings.Contains(out, "fatal error:")
			}
		}
	}
	if !ok {
		return "", false, out
	}
	rec["observed"] = firstLines(out, 12)
	b, _ = json.MarshalIndent(rec, "", " ")
	dir := filepath.Join(*flagVerif, "replays", *flagProp)
	os.MkdirAll(dir, 0o755)
	final := filepath.Join(dir, name)
	os.WriteFile(final, b, 0o644)
	return final, true, out
}

func firstLines(s string, n int) []string {
	var out []string
	for _, l := range strings.Split(s, "\n") {
		if strings.HasPrefix(l, "VERIF-") || strings.Contains(l, "panic") || strings.Contains(l, "fatal") {
			out = append(out, l)
			if len(out) >= n {
				break
			}
		}
	}
	return out
}

func sanitize(s string) string {
	return strings.Map(func(r rune) rune {
		if r >= 'a' && r <= 'z' || r >= 'A' && r <= 'Z' || r >= '0' && r <= '9' || r == '-' || r == '_' || r == '.' {
			return r
		}
		return '_'
	}, s)
}

// ---------------------------------------------------------------------------------------
// Translator validation: concrete vectors through the engine and through the native build.

type validation struct {
	Vectors    int
	Compared   int
	Mismatches int
	Skipped    int
	Samples    []string
	Error      string
}

func (r *replayer) validate(ld *loaded, hr *harnessResult, tier string) *validation {
	n := 12
	if tier == "thorough" {
		n = 48
	}
	if hr.Spec.Opts["novalidate"] == "true" {
		return nil
	}
	val := &validation{}
	pkg := ld.pkgs[hr.Spec.PkgPath]
	fn := pkg.Func(hr.Spec.Name)
	rng := rand.New(rand.NewSource(*flagSeed*7919 + 17))
	type vec struct {
		Values map[string]interface{} `json:"values"`
		engine sym.ConcreteOutcome
	}
	var vecs []vec
	for i := 0; i < n; i++ {
		oc := sym.RunConcrete(ld.prog, fn, "github.com/Azbesciak/RealDecisionMaker/", tier, rng.Int63())
		if oc.Outcome == "unsupported" || oc.Outcome == "engine-error" {
			val.Error = oc.Outcome + ": " + oc.Detail
			val.Mismatches++
			return val
		}
		if oc.Outcome == "budget" {
			// the engine ran into an unwinding bound on this vector: natively it may not terminate; not a validation vector
			continue
		}
		vecs = append(vecs, vec{Values: oc.Values, engine: oc})
	}
	val.Vectors = len(vecs)
	batch := map[string]interface{}{"harness": hr.Spec.Name, "tier": tier, "vectors": vecs}
	b, _ := json.Marshal(batch)
	bf := filepath.Join(r.scratch, hr.Spec.Name+"_batch.json")
	os.WriteFile(bf, b, 0o644)
	out, timedOut := r.runNative(hr.Spec, []string{"VERIF_BATCH=" + bf}, 120*time.Second)
	if timedOut {
		val.Error = "native batch timed out"
		val.Mismatches++
		return val
	}
	native := map[int]string{}
	for _, l := range strings.Split(out, "\n") {
		if strings.HasPrefix(l, "VERIF-VECTOR ") {
			var idx int
			rest := strings.TrimPrefix(l, "VERIF-VECTOR ")
			sp := strings.SplitN(rest, " ", 2)
			fmt.Sscanf(sp[0], "%d", &idx)
			if len(sp) == 2 {
				native[idx] = sp[1]
			}
		}
	}
	if len(native) != len(vecs) {
		val.Error = "native batch produced " + fmt.Sprint(len(native)) + " results for " + fmt.Sprint(len(vecs)) + " vectors: " + tail(out, 600)
		val.Mismatches++
		return val
	}
	for i, v := range vecs {
		e := v.engine.Signature()
		if strings.HasPrefix(e, "outcome=skipped") && strings.HasPrefix(native[i], "outcome=skipped") {
			val.Skipped++
			continue
		}
		val.Compared++
		if e != native[i] {
			val.Mismatches++
			if len(val.Samples) < 4 {
				vb, _ := json.Marshal(v.Values)
				val.Samples = append(val.Samples, fmt.Sprintf("MISMATCH engine{%s} native{%s} values=%s", e, native[i], vb))
			}
		} else if len(val.Samples) < 2 {
			val.Samples = append(val.Samples, "agree: "+truncate(e, 300))
		}
	}
	return val
}

func tail(s string, n int) string {
	if len(s) > n {
		return s[len(s)-n:]
	}
	return s
}

func truncate(s string, n int) string {
	if len(s) > n {
		return s[:n] + "…"
	}
	return s
}


// replayStored re-runs a stored counterexample (./check --replay <file>) on the native build of the
// current tree: exit 1 and a VIOLATION line if it still reproduces, exit 0 otherwise.
func replayStored(path string) int {
	if abs, e := filepath.Abs(path); e == nil {
		path = abs
	}
	b, err := os.ReadFile(path)
	if err != nil {
		fmt.Fprintln(os.Stderr, "gosym:", err)
		return 2
	}
	var rec struct {
		Property  string `json:"property"`
		Harness   string `json:"harness"`
		Tier      string `json:"tier"`
		Assertion string `json:"assertion"`
	}
	if err := json.Unmarshal(b, &rec); err != nil {
		fmt.Fprintln(os.Stderr, "gosym:", err)
		return 2
	}
	*flagProp = rec.Property
	files, specs, err := collect(rec.Property)
	if err != nil {
		fmt.Fprintln(os.Stderr, "gosym:", err)
		return 2
	}
	scratch, _ := os.MkdirTemp("", "gosym-gen-")
	defer os.RemoveAll(scratch)
	if err := addPipeline(files, scratch); err != nil {
		fmt.Fprintln(os.Stderr, "gosym:", err)
		return 2
	}
	var hs *harnessSpec
	for i := range specs {
		if specs[i].Name == rec.Harness {
			hs = &specs[i]
		}
	}
	if hs == nil {
		fmt.Fprintf(os.Stderr, "gosym: harness %s not found for %s\n", rec.Harness, rec.Property)
		return 2
	}
	rp := newReplayer(files)
	defer rp.cleanup()
	env := []string{"VERIF_REPLAY=" + path}
	limit := 60 * time.Second
	if hs.Opts["race"] == "true" {
		env = append(env, "VERIF_RACE=1")
		limit = 240 * time.Second
	}
	out, timedOut := rp.runNative(*hs, env, limit)
	fmt.Println(out)
	reproduced := false
	switch {
	case strings.Contains(rec.Assertion, "no-shared-write") || strings.Contains(rec.Assertion, "no-state-kept"):
		reproduced = strings.Contains(out, "DATA RACE") || strings.Contains(out, "concurrent-equals-sequential")
	case rec.Assertion == "uncaught-panic":
		reproduced = strings.Contains(out, "outcome=panicked")
	case rec.Assertion == "budget":
		reproduced = timedOut || strings.Contains(out, "stack overflow") || strings.Contains(out, "goroutine stack exceeds")
	default:
		reproduced = strings.Contains(out, fmt.Sprintf("VERIF-ASSERT-FAILED harness=%s id=%s\n", hs.Name, rec.Assertion))
		if !reproduced && hs.Opts["fatal"] == "violation" {
			reproduced = timedOut || strings.Contains(out, "stack overflow") || strings.Contains(out, "goroutine stack exceeds") || strings.Contains(out, "fatal error:")
		}
	}
	if reproduced {
		fmt.Printf("VIOLATION property=%s replay=%s\n", rec.Property, path)
		return 1
	}
	fmt.Printf("NOT-REPRODUCED property=%s assertion=%s (the stored counterexample does not fail on the current tree)\n", rec.Property, rec.Assertion)
	return 0
}
