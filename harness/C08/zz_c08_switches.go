//go:build verif

//verif:dir zz_pipeline
package zz_pipeline

import (
	"github.com/Azbesciak/RealDecisionMaker/lib/model"
	rt "github.com/Azbesciak/RealDecisionMaker/lib/zz_verifrt"
)

//verif:bounds C08 HC08_switches: bias lists of length 0..3 (quick) / 0..4 (thorough); every entry independently enabled/disabled, with a symbolic applyProbability in [0,1], an absent one (default) or the constants 0 and 1; the activation draws of biasApplyRandomSeed symbolic in [0,1); biases are recording stand-ins registered under the real MakeDecision/ChooseBiases/processBiases/UpdateBiasesProps; an unknown name appears only on disabled entries
//verif:outside C08: the statistical reading ("fires with the stated frequency") is not a solver obligation: it follows from the exact characterisation fires(i) <=> p_i > draw_i proved here plus the uniformity of math/rand.Float64, which is trusted; longer lists
//verif:assume C08: math/rand.Float64 returns values in [0,1) (the draw variables' domain)

type c08bias struct {
	name  string
	calls *[]string
	trace *c08trace
}

// c08trace records the states the stand-in biases received and produced and the state the method evaluated
type c08trace struct {
	original []*model.DecisionMakingParams
	received []*model.DecisionMakingParams
	produced []*model.DecisionMakingParams
}

func (b *c08bias) Identifier() string { return b.name }
func (b *c08bias) Apply(original, current *model.DecisionMakingParams, props *model.BiasProps, listener *model.BiasListener) *model.BiasedResult {
	*b.calls = append(*b.calls, b.name)
	next := *current // every firing bias hands on a state of its own
	if b.trace != nil {
		b.trace.original = append(b.trace.original, original)
		b.trace.received = append(b.trace.received, current)
		b.trace.produced = append(b.trace.produced, &next)
	}
	return &model.BiasedResult{DMP: &next, Props: "fired:" + b.name}
}

type c08entry struct {
	name     string
	disabled bool
	hasP     bool
	p        float64
}

func c08request(entries []c08entry) *model.DecisionMaker {
	dm := Request(ReqOpts{Method: "weightedSum", A: 2, K: 1, Considered: 2, Values: 1, ConcreteParams: true, CritTypes: "gain"})
	var bs []interface{}
	for _, e := range entries {
		m := map[string]interface{}{"name": e.name, "props": map[string]interface{}{}}
		if e.disabled {
			m["disabled"] = true
		}
		if e.hasP {
			m["applyProbability"] = e.p
		}
		bs = append(bs, m)
	}
	dm.Biases = bs
	return dm
}

func c08run(dm *model.DecisionMaker, calls *[]string) (*model.DecisionMakerChoice, bool) {
	c, p, _, _ := c08runTraced(dm, calls)
	return c, p
}

func c08runTraced(dm *model.DecisionMaker, calls *[]string) (*model.DecisionMakerChoice, bool, *c08trace, *Recorder) {
	tr := &c08trace{}
	rec := &Recorder{}
	fs, ls, _ := Registries(rec)
	bm := model.BiasMap{}
	for _, n := range []string{"x", "y", "z", "w"} {
		bm[n] = &c08bias{name: n, calls: calls, trace: tr}
	}
	var choice *model.DecisionMakerChoice
	panicked := rt.Panics(func() {
		choice = dm.MakeDecision(fs, ls, &bm, rt.Generators)
	})
	return choice, panicked, tr, rec
}

//verif:harness HC08_switches mode=FP reach=fired,skipped,disabled,default-probability,unknown-disabled
func HC08_switches() {
	n := rt.IntRange("n", 0, rt.Pick(3, 4))
	names := []string{"x", "y", "z", "w"}
	var entries []c08entry
	for i := 0; i < n; i++ {
		e := c08entry{name: names[i]}
		switch rt.OneOf("kind."+names[i], "enabled-p", "enabled-default", "enabled-one", "enabled-zero", "disabled", "disabled-unknown") {
		case "enabled-p":
			e.hasP, e.p = true, rt.FloatIn("p."+names[i], 0, 1)
		case "enabled-default":
			rt.Reach("default-probability")
		case "enabled-one":
			e.hasP, e.p = true, 1
		case "enabled-zero":
			e.hasP, e.p = true, 0
		case "disabled":
			e.disabled = true
			e.hasP, e.p = true, rt.FloatIn("p."+names[i], 0, 1)
			rt.Reach("disabled")
		case "disabled-unknown":
			e.disabled = true
			e.name = "no-such-bias"
			rt.Reach("unknown-disabled")
		}
		entries = append(entries, e)
	}
	var calls []string
	dm := c08request(entries)
	choice, panicked, tr, rec := c08runTraced(dm, &calls)
	rt.Assert("C08.answered", !panicked)
	if panicked {
		return
	}
	var enabled []c08entry
	for _, e := range entries {
		if !e.disabled {
			enabled = append(enabled, e)
		}
	}
	rt.Assert("C08.one-entry-per-enabled-bias", len(choice.Biases) == len(enabled))
	if len(choice.Biases) != len(enabled) {
		return
	}
	gen := rt.Generators(dm.BiasApplyRandomSeed)
	var expectedCalls []string
	for j, e := range enabled {
		u := gen() // the j-th draw of biasApplyRandomSeed: position among the enabled entries
		p := 1.0
		if e.hasP {
			p = e.p
		}
		out, ok := choice.Biases[j].(model.BiasParams)
		rt.Assert("C08.entry-type", ok)
		if !ok {
			continue
		}
		rt.Assert("C08.echoes-name-in-order", out.Name == e.name)
		rt.Assert("C08.echoes-probability", out.ApplyProbability == p)
		fires := rt.Branch(p > u)
		if fires {
			rt.Reach("fired")
			expectedCalls = append(expectedCalls, e.name)
			rt.Assert("C08.fired-reports-props", out.Props == interface{}("fired:"+e.name))
		} else {
			rt.Reach("skipped")
			rt.Assert("C08.not-fired-reports-null", out.Props == nil)
		}
		if e.hasP && e.p == 1 || !e.hasP {
			rt.Assert("C08.probability-one-always-fires", fires)
		}
		if e.hasP && e.p == 0 {
			rt.Assert("C08.probability-zero-never-fires", !fires)
		}
	}
	// the bias is applied iff it fires, in order
	rt.Assert("C08.applied-iff-fired", len(calls) == len(expectedCalls))
	for i := range expectedCalls {
		if i < len(calls) {
			rt.Assert("C08.applied-in-order", calls[i] == expectedCalls[i])
		}
	}
	// a bias that does not fire changes nothing: every firing bias receives the state the previous firing bias
	// handed on (the first one the unbiased state), all see the same original, the method evaluates the last state
	for i := range tr.received {
		rt.Assert("C08.same-original-for-every-bias", tr.original[i] == tr.original[0])
		if i == 0 {
			rt.Assert("C08.first-firing-bias-receives-the-unbiased-state", tr.received[0] == tr.original[0])
		} else {
			rt.Assert("C08.not-firing-changes-nothing.state-threaded", tr.received[i] == tr.produced[i-1])
		}
	}
	if n := len(tr.produced); n > 0 && rec.Evaluated != nil {
		rt.Assert("C08.not-firing-changes-nothing.method-evaluates-last-state", rec.Evaluated == tr.produced[n-1])
	}
	// a disabled entry is equivalent to leaving it out
	var calls2 []string
	choice2, panicked2 := c08run(c08request(enabled), &calls2)
	rt.Assert("C08.disabled-equals-removed.answered", !panicked2)
	if !panicked2 {
		rt.Assert("C08.disabled-equals-removed", rt.DeepEqual(choice, choice2))
	}
}
