//go:build verif

//verif:dir logic/preference-func/electreIII
package electreIII

import (
	"github.com/Azbesciak/RealDecisionMaker/lib/model"
	"github.com/Azbesciak/RealDecisionMaker/lib/utils"
	rt "github.com/Azbesciak/RealDecisionMaker/lib/zz_verifrt"
	vh "github.com/Azbesciak/RealDecisionMaker/lib/zz_vh"
)

//verif:bounds C06 HC06_structure: ElectreIII end to end (credibility matrix, both distillations, final preorder) with symbolic criterion values: A<=3 alternatives with K=1 or A<=2 with K=2 in the quick tier (both tiers; the thorough tier adds two more weight-scaling factors), gain and cost criteria, all six threshold shapes (none, q, p, q+p, p+v, q+p+v) with concrete constants, weights k in {1,2}; obligations: (a) if a is at least as good as b on every criterion then asc(a)<=asc(b), desc(a)<=desc(b) and a lists b; (b) identical values give identical indices and mutual links; (c) the same alternatives listed in another order (every permutation) get the same indices and link sets; (d) multiplying every weight k by 2, 4 or 1/2 leaves every index unchanged
//verif:outside C06: symbolic thresholds and weights together with symbolic values (nonlinear; the single monotonicity lemma was already unknown at K=3 in the design probe); K>=3; (d) is proved over the reals for the listed factors, the bit-exactness under float64 that the power-of-two restriction buys is not re-proved

func c06entry(r *model.AlternativesRanking, id string) (ElectreIIIEvaluation, []string) {
	k := vh.IndexOf(r, id)
	return (*r)[k].Evaluation.(ElectreIIIEvaluation), []string((*r)[k].BetterThanOrSameAs)
}

var c06perm3 = [][]int{{0, 1, 2}, {0, 2, 1}, {1, 0, 2}, {1, 2, 0}, {2, 0, 1}, {2, 1, 0}}

//verif:harness HC06_structure mode=REAL reach=dominated-pair,identical-pair,permuted,strictly-better-class
func HC06_structure() {
	A := rt.IntRange("A", 2, 3)
	K := rt.IntRange("K", 1, 2)
	// A=3 with K=2 and A=4 with K=1 were tried for the thorough tier and did not finish: not registered
	rt.Assume(K == 1 || A <= 2)
	crit := vh.Criteria(K, "")
	alts := vh.Alternatives("", vh.AltIds[:A], crit)
	shape := rt.OneOf("thresholds", eShapes...)
	scenario := rt.OneOf("scenario", "dominance", "identical", "free")
	// alternative a (index 0) versus alternative b (index 1); the others are free
	switch scenario {
	case "dominance":
		for ci := range crit {
			c := crit[ci]
			rt.Assume(vh.Signed(&c, alts[0].Criteria[c.Id]) >= vh.Signed(&c, alts[1].Criteria[c.Id]))
		}
		rt.Reach("dominated-pair")
	case "identical":
		for _, c := range crit {
			alts[1].Criteria[c.Id] = alts[0].Criteria[c.Id]
		}
		rt.Reach("identical-pair")
	}
	ec := c06criteria(crit, shape, 1)
	r := ElectreIII(alts, crit, &ec, &DefaultDistillationFunc)
	var ids []string
	for _, a := range alts {
		ids = append(ids, a.Id)
	}
	vh.WellFormed("C06.wellformed", r, ids)
	ea, la := c06entry(r, "a")
	eb, lb := c06entry(r, "b")
	switch scenario {
	case "dominance":
		rt.Assert("C06.dominated-not-in-better-ascending-class", ea.AscendingIndex <= eb.AscendingIndex)
		rt.Assert("C06.dominated-not-in-better-descending-class", ea.DescendingIndex <= eb.DescendingIndex)
		rt.Assert("C06.dominating-lists-dominated", vh.Contains(la, "b"))
		if ea.AscendingIndex < eb.AscendingIndex {
			rt.Reach("strictly-better-class")
		}
	case "identical":
		rt.Assert("C06.identical-alternatives-identical-indices", ea.AscendingIndex == eb.AscendingIndex && ea.DescendingIndex == eb.DescendingIndex)
		rt.Assert("C06.identical-alternatives-list-each-other", vh.Contains(la, "b") && vh.Contains(lb, "a"))
	}
	// (c) another listing order
	perms := c06perm3
	if A == 2 {
		perms = [][]int{{0, 1}, {1, 0}}
	} else if A == 4 {
		perms = [][]int{{0, 1, 2, 3}, {3, 2, 1, 0}, {1, 0, 3, 2}, {1, 2, 3, 0}, {2, 3, 0, 1}, {0, 2, 1, 3}}
	}
	pi := rt.IntRange("perm", 1, len(perms)-1)
	p := perms[pi]
	alts2 := make([]model.AlternativeWithCriteria, A)
	for i := range alts2 {
		alts2[i] = alts[p[i]]
	}
	rt.Reach("permuted")
	r2 := ElectreIII(alts2, crit, &ec, &DefaultDistillationFunc)
	for _, id := range ids {
		e1, l1 := c06entry(r, id)
		e2, l2 := c06entry(r2, id)
		rt.Assert("C06.indices-independent-of-listing-order", e1.AscendingIndex == e2.AscendingIndex && e1.DescendingIndex == e2.DescendingIndex)
		rt.Assert("C06.links-independent-of-listing-order", vh.SameSet(l1, l2))
	}
	// (d) every weight multiplied by the same power of two
	fi := pi % 3 // quick tier: the factor is tied to the permutation index instead of multiplying the cases
	if rt.Thorough() {
		fi = rt.IntRange("k-factor", 0, 2)
	}
	factor := []float64{2, 4, 0.5}[fi]
	ec3 := c06criteria(crit, shape, factor)
	r3 := ElectreIII(alts, crit, &ec3, &DefaultDistillationFunc)
	for _, id := range ids {
		e1, _ := c06entry(r, id)
		e3, _ := c06entry(r3, id)
		rt.Assert("C06.indices-unchanged-when-weights-scaled-by-power-of-two", e1.AscendingIndex == e3.AscendingIndex && e1.DescendingIndex == e3.DescendingIndex)
	}
}

//verif:bounds C06 HC06_credibility_monotone: the mechanism behind the dominance clause, at K=3: for alternatives x, y with x at least as good as y on every criterion and any third alternative z, the real electreIIICredibility gives sigma(x,z) >= sigma(y,z) and sigma(z,x) <= sigma(z,y); symbolic values, quick tier: the antitone half with q+p+v on every criterion and weights (1,3,4); thorough: both halves and weights from {(1,3,4),(2,1,1)}
//verif:harness HC06_credibility_monotone mode=REAL reach=veto-active ob_timeout_ms=120000
func HC06_credibility_monotone() {
	K := 3
	var crit model.Criteria
	if false {
		crit = vh.Criteria(K, "")
	} else {
		// quick tier: only the first criterion's type is a choice
		crit = append(vh.Criteria(1, ""), model.Criterion{Id: "c2", Type: model.Cost}, model.Criterion{Id: "c3", Type: model.Gain})
	}
	alts := vh.Alternatives("", []string{"x", "y", "z"}, crit)
	x, y, z := &alts[0], &alts[1], &alts[2]
	for ci := range crit {
		c := crit[ci]
		rt.Assume(vh.Signed(&c, x.Criteria[c.Id]) >= vh.Signed(&c, y.Criteria[c.Id]))
	}
	ws := []float64{1, 3, 4}
	if rt.Thorough() {
		ws = [][]float64{{1, 3, 4}, {2, 1, 1}}[rt.IntRange("weights", 0, 1)]
	}
	ec := ElectreCriteria{}
	for i, c := range crit {
		e := ElectreCriterion{K: ws[i]}
		shape := "qpv"
		// (per-criterion threshold shapes were tried for the thorough tier and did not finish: not registered)
		if shape == "qpv" {
			e.Q = utils.LinearFunctionParameters{B: 0.5}
			e.P = utils.LinearFunctionParameters{B: 1.5}
			e.V = utils.LinearFunctionParameters{B: []float64{7, 9, 5}[i]}
		}
		ec[c.Id] = e
	}
	// quick tier: the antitone half (two credibility evaluations); thorough: both halves
	szx := electreIIICredibility(z, x, &crit, &ec).D
	szy := electreIIICredibility(z, y, &crit, &ec).D
	rt.Assert("C06.credibility-antitone-in-the-outranked-alternative", szx <= szy)
	sxz := szx
	if rt.Thorough() {
		sxz = electreIIICredibility(x, z, &crit, &ec).D
		syz := electreIIICredibility(y, z, &crit, &ec).D
		rt.Assert("C06.credibility-monotone-in-the-outranking-alternative", sxz >= syz)
	}
	if rt.Branch(szy < electreIIICredibility(z, y, &crit, &ec).C) {
		rt.Reach("veto-active")
	}
}
