//go:build verif

//verif:dir logic/limited-rationality/majority
package majority

import (
	vh "github.com/Azbesciak/RealDecisionMaker/lib/zz_vh"
	rt "github.com/Azbesciak/RealDecisionMaker/lib/zz_verifrt"
)

//verif:bounds C01 HC01_majority: known alternatives A<=5 (quick; the known aliasing failure needs a 3-group followed by a 2-group) / A<=6 (thorough), K=1 (quick) / K<=2 (thorough), all four draw policies, currentChoice absent / first / last considered / known-not-considered, fixed order; HC01_majority_shuffled: seeded-random order with symbolic draws, A<=4
//verif:outside C01: more alternatives than the bounds; sorts of more than 12 elements

//verif:harness HC01_majority mode=REAL reach=tie-group,cc-considered
func HC01_majority() {
	s := c11build(rt.Pick(5, 6), rt.Pick(1, 2), false)
	dmp := vh.Params(s.known, s.chose, s.crit, s.params)
	r := c11majority().Evaluate(dmp)
	vh.WellFormed("C01.majority", r, s.expectedIds)
	if s.params.CurrentChoice != "" && vh.Contains(s.chose, s.params.CurrentChoice) {
		rt.Reach("cc-considered")
	}
	for i := range *r {
		if len((*r)[i].BetterThanOrSameAs) >= 2 {
			rt.Reach("tie-group")
		}
	}
}

//verif:harness HC01_majority_shuffled mode=REAL reach=shuffled
func HC01_majority_shuffled() {
	s := c11build(rt.Pick(4, 5), 1, true)
	dmp := vh.Params(s.known, s.chose, s.crit, s.params)
	r := c11majority().Evaluate(dmp)
	vh.WellFormed("C01.majority.shuffled", r, s.expectedIds)
	rt.Reach("shuffled")
}
