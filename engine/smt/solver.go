package smt

import (
	"bufio"
	"fmt"
	"io"
	"math"
	"math/big"
	"os/exec"
	"strconv"
	"strings"
	"time"
)

type Result int

const (
	Sat Result = iota
	Unsat
	Unknown
)

func (r Result) String() string { return [...]string{"sat", "unsat", "unknown"}[r] }

type ModelVal struct {
	IsBool bool
	B      bool
	F      float64  // nearest float64 (REAL) / exact (FP)
	R      *big.Rat // exact value in REAL mode when rational
	Inexact bool    // algebraic number: R is unavailable
	FInexact bool   // F is only the nearest float64 of R
}

type Model map[string]ModelVal

type Stats struct {
	Queries  int
	Sat      int
	UnsatN   int
	UnknownN int
	Errors   int
	Restarts int
	Time     time.Duration
}

// Solver drives one long-lived solver process through SMT-LIB2 on stdin/stdout.
type Solver struct {
	Bin   string
	Args  []string
	cmd   *exec.Cmd
	in    io.WriteCloser
	out   *bufio.Reader
	lines chan string
	deadline time.Duration
	ctx   *Ctx
	defined []int // term ids / var names defined, as a stack with scope markers (-1)
	isDef   map[int]bool
	declUF  map[string]bool
	scopeUF [][]string
	Transcript []string // persistent commands of the current path (declarations, definitions, asserts)
	transMarks []int
	Stats   Stats
	TimeoutMs int
	LastError string
}

func NewSolver(bin string, args ...string) (*Solver, error) {
	s := &Solver{Bin: bin, Args: args, TimeoutMs: 10000}
	if err := s.start(); err != nil {
		return nil, err
	}
	return s, nil
}

func (s *Solver) start() error {
	s.cmd = exec.Command(s.Bin, s.Args...)
	var err error
	s.in, err = s.cmd.StdinPipe()
	if err != nil {
		return err
	}
	o, err := s.cmd.StdoutPipe()
	if err != nil {
		return err
	}
	s.cmd.Stderr = nil
	s.out = bufio.NewReaderSize(o, 1<<20)
	if err := s.cmd.Start(); err != nil {
		return err
	}
	lines := make(chan string, 1024)
	s.lines = lines
	rd := s.out
	go func() {
		defer close(lines)
		for {
			l, err := rd.ReadString('\n')
			if l != "" {
				lines <- l
			}
			if err != nil {
				return
			}
		}
	}()
	return nil
}

// nextLine returns the next output line of the solver; a solver that does not answer within
// the deadline (it ignored its own timeout) is killed and the query counts as inconclusive.
func (s *Solver) nextLine() string {
	d := s.deadline
	if d <= 0 {
		d = 5 * time.Minute
	}
	select {
	case l, ok := <-s.lines:
		if !ok {
			panic(SolverError{"solver process ended"})
		}
		return l
	case <-time.After(d):
		s.cmd.Process.Kill()
		panic(solverHang{})
	}
}

func (s *Solver) Close() {
	if s.cmd != nil {
		s.in.Close()
		s.cmd.Process.Kill()
		s.cmd.Wait()
		s.cmd = nil
	}
}

func (s *Solver) restart() {
	s.Close()
	if err := s.start(); err != nil {
		panic(err)
	}
}

func (s *Solver) send(line string) {
	if _, err := io.WriteString(s.in, line+"\n"); err != nil {
		panic(fmt.Sprintf("solver write: %v", err))
	}
}

func (s *Solver) persist(line string) {
	s.Transcript = append(s.Transcript, line)
	s.send(line)
}

// Begin starts a fresh path: solver state is reset and bound to ctx.
func (s *Solver) Begin(ctx *Ctx) {
	s.ctx = ctx
	s.send("(reset)")
	s.send("(set-option :produce-models true)")
	s.defined = s.defined[:0]
	s.isDef = map[int]bool{}
	s.declUF = map[string]bool{}
	s.Transcript = s.Transcript[:0]
	s.transMarks = s.transMarks[:0]
}

func (s *Solver) ufDecl(name string, arity int) string {
	so := s.ctx.SortName(SNum)
	return fmt.Sprintf("(declare-fun %s (%s) %s)", SymName(name), strings.TrimSpace(strings.Repeat(so+" ", arity)), so)
}

// define makes sure t and everything below it is known to the solver.
func (s *Solver) define(t *Term) {
	if t.Op == OConstB || t.Op == OConstN || s.isDef[t.ID] {
		return
	}
	// iterative post-order to survive deep terms
	type fr struct {
		t *Term
		i int
	}
	stack := []fr{{t, 0}}
	for len(stack) > 0 {
		top := &stack[len(stack)-1]
		if top.i < len(top.t.Args) {
			a := top.t.Args[top.i]
			top.i++
			if !(a.Op == OConstB || a.Op == OConstN || s.isDef[a.ID]) {
				stack = append(stack, fr{a, 0})
			}
			continue
		}
		x := top.t
		stack = stack[:len(stack)-1]
		if s.isDef[x.ID] {
			continue
		}
		switch x.Op {
		case OVar:
			s.persist(fmt.Sprintf("(declare-const %s %s)", SymName(x.Name), s.ctx.SortName(x.Sort)))
		default:
			if x.Op == OUF && !s.declUF[x.Name] {
				s.declUF[x.Name] = true
				s.persist(s.ufDecl(x.Name, len(x.Args)))
				if len(s.scopeUF) > 0 {
					s.scopeUF[len(s.scopeUF)-1] = append(s.scopeUF[len(s.scopeUF)-1], x.Name)
				}
			}
			s.persist(fmt.Sprintf("(define-fun t%d () %s %s)", x.ID, s.ctx.SortName(x.Sort), s.ctx.Body(x)))
		}
		s.isDef[x.ID] = true
		s.defined = append(s.defined, x.ID)
	}
}

func (s *Solver) Push() {
	s.send("(push 1)")
	s.defined = append(s.defined, -1)
	s.scopeUF = append(s.scopeUF, nil)
	s.transMarks = append(s.transMarks, len(s.Transcript))
}

func (s *Solver) Pop() {
	s.send("(pop 1)")
	s.popLocal()
}

func (s *Solver) popLocal() {
	for len(s.defined) > 0 {
		id := s.defined[len(s.defined)-1]
		s.defined = s.defined[:len(s.defined)-1]
		if id == -1 {
			break
		}
		delete(s.isDef, id)
	}
	for _, n := range s.scopeUF[len(s.scopeUF)-1] {
		delete(s.declUF, n)
	}
	s.scopeUF = s.scopeUF[:len(s.scopeUF)-1]
	s.Transcript = s.Transcript[:s.transMarks[len(s.transMarks)-1]]
	s.transMarks = s.transMarks[:len(s.transMarks)-1]
}

func (s *Solver) Assert(t *Term) {
	if t.Op == OConstB && t.B {
		return
	}
	s.define(t)
	s.persist(fmt.Sprintf("(assert %s)", s.ctx.Ref(t)))
}

func (s *Solver) readLine() string {
	return strings.TrimSpace(s.nextLine())
}

// Check runs (check-sat) under the current assertions plus extra (in a temporary scope).
func (s *Solver) Check(timeoutMs int, extra ...*Term) Result {
	r, _ := s.CheckModel(timeoutMs, nil, extra...)
	return r
}

// Script returns the current persistent transcript plus the given extra assertions as a
// self-contained SMT-LIB2 script (used for cross-checking with other solvers).
func (s *Solver) Script(extra ...*Term) string {
	s.Push()
	for _, e := range extra {
		s.Assert(e)
	}
	var sb strings.Builder
	for _, l := range s.Transcript {
		sb.WriteString(l)
		sb.WriteString("\n")
	}
	sb.WriteString("(check-sat)\n")
	s.Pop()
	return sb.String()
}

func (s *Solver) CheckModel(timeoutMs int, vars []*Term, extra ...*Term) (Result, Model) {
	if timeoutMs <= 0 {
		timeoutMs = s.TimeoutMs
	}
	t0 := time.Now()
	s.Push()
	return s.checkPushed(timeoutMs, vars, extra, t0)
}

// restartReplay starts a fresh solver process and re-sends the persistent transcript.
func (s *Solver) restartReplay() {
	s.Close()
	if err := s.start(); err != nil {
		panic(SolverError{"cannot restart solver: " + err.Error()})
	}
	s.send("(set-option :produce-models true)")
	for _, l := range s.Transcript {
		s.send(l)
	}
	s.Stats.Restarts++
}

func (s *Solver) checkPushed(timeoutMs int, vars []*Term, extra []*Term, t0 time.Time) (res Result, m Model) {
	defer func() {
		if r := recover(); r != nil {
			if _, hung := r.(solverHang); hung {
				// the solver ignored its timeout: count the query as unknown and carry on with a fresh process
				s.popLocal()
				s.restartReplay()
				s.Stats.Queries++
				s.Stats.UnknownN++
				s.Stats.Time += time.Since(t0)
				res, m = Unknown, nil
				return
			}
			panic(r)
		}
		s.Pop()
	}()
	for _, e := range extra {
		s.Assert(e)
	}
	for _, v := range vars {
		if v.Op != OVar {
			s.define(v)
		}
	}
	s.send(fmt.Sprintf("(set-option :timeout %d)", timeoutMs))
	s.deadline = time.Duration(timeoutMs)*time.Millisecond*2 + 10*time.Second
	s.send("(check-sat)")

	line := s.readLine()
	for line == "" {
		line = s.readLine()
	}
	s.Stats.Queries++
	switch {
	case line == "sat":
		res = Sat
		s.Stats.Sat++
	case line == "unsat":
		res = Unsat
		s.Stats.UnsatN++
	case line == "unknown":
		res = Unknown
		s.Stats.UnknownN++
	case strings.Contains(line, "canceled") || strings.Contains(line, "timeout"):
		// the solver gave up inside its own time limit while still processing the scope
		res = Unknown
		s.Stats.UnknownN++
	default:
		// (error ...) or anything unexpected: inconclusive; resynchronise by restarting the process
		s.Stats.Errors++
		s.LastError = line
		res = Unknown
		s.Stats.Time += time.Since(t0)
		panic(SolverError{line})
	}

	if res == Sat && len(vars) > 0 {
		m = s.getValues(vars)
	}
	s.Stats.Time += time.Since(t0)
	return res, m
}

type solverHang struct{}

type SolverError struct{ Msg string }

func (e SolverError) Error() string { return "solver error: " + e.Msg }

func (s *Solver) getValues(vars []*Term) Model {
	m := Model{}
	const chunk = 200
	for i := 0; i < len(vars); i += chunk {
		j := i + chunk
		if j > len(vars) {
			j = len(vars)
		}
		var sb strings.Builder
		sb.WriteString("(get-value (")
		n := 0
		for _, v := range vars[i:j] {
			if !s.isDef[v.ID] || v.IsConst() {
				continue
			}
			sb.WriteString(s.ctx.Ref(v))
			sb.WriteString(" ")
			n++
		}
		sb.WriteString("))")
		if n == 0 {
			continue
		}
		s.send(sb.String())
		txt := s.readSexp()
		ex, _ := parseSexp(txt, 0)
		for _, pair := range ex.list {
			if len(pair.list) != 2 {
				continue
			}
			name := strings.Trim(pair.list[0].atom, "|")
			m[name] = parseValue(pair.list[1])
		}
	}
	return m
}

func (s *Solver) readSexp() string {
	var sb strings.Builder
	depth := 0
	started := false
	inBar := false
	for {
		line := s.nextLine()
		for _, ch := range line {
			if ch == '|' {
				inBar = !inBar
			}
			if inBar {
				continue
			}
			if ch == '(' {
				depth++
				started = true
			} else if ch == ')' {
				depth--
			}
		}
		sb.WriteString(line)
		if started && depth <= 0 {
			break
		}
	}
	return sb.String()
}

type sexp struct {
	atom string
	list []*sexp
	isList bool
}

func parseSexp(s string, i int) (*sexp, int) {
	for i < len(s) && (s[i] == ' ' || s[i] == '\n' || s[i] == '\t' || s[i] == '\r') {
		i++
	}
	if i >= len(s) {
		return &sexp{}, i
	}
	if s[i] == '(' {
		i++
		e := &sexp{isList: true}
		for {
			for i < len(s) && (s[i] == ' ' || s[i] == '\n' || s[i] == '\t' || s[i] == '\r') {
				i++
			}
			if i >= len(s) {
				return e, i
			}
			if s[i] == ')' {
				return e, i + 1
			}
			var c *sexp
			c, i = parseSexp(s, i)
			e.list = append(e.list, c)
		}
	}
	if s[i] == '|' {
		j := strings.IndexByte(s[i+1:], '|')
		return &sexp{atom: s[i : i+j+2]}, i + j + 2
	}
	j := i
	for j < len(s) && !strings.ContainsRune(" \n\t\r()", rune(s[j])) {
		j++
	}
	return &sexp{atom: s[i:j]}, j
}

func parseRat(e *sexp) (*big.Rat, bool) {
	if !e.isList {
		r := new(big.Rat)
		a := strings.TrimSuffix(e.atom, "?")
		if _, ok := r.SetString(a); ok {
			return r, !strings.HasSuffix(e.atom, "?")
		}
		return nil, false
	}
	if len(e.list) == 0 {
		return nil, false
	}
	switch e.list[0].atom {
	case "-":
		if len(e.list) == 2 {
			r, ok := parseRat(e.list[1])
			if r == nil {
				return nil, false
			}
			return r.Neg(r), ok
		}
		if len(e.list) == 3 {
			a, ok1 := parseRat(e.list[1])
			b, ok2 := parseRat(e.list[2])
			if a == nil || b == nil {
				return nil, false
			}
			return a.Sub(a, b), ok1 && ok2
		}
	case "/":
		if len(e.list) == 3 {
			a, ok1 := parseRat(e.list[1])
			b, ok2 := parseRat(e.list[2])
			if a == nil || b == nil || b.Sign() == 0 {
				return nil, false
			}
			return a.Quo(a, b), ok1 && ok2
		}
	case "+":
		if len(e.list) == 3 {
			a, ok1 := parseRat(e.list[1])
			b, ok2 := parseRat(e.list[2])
			if a == nil || b == nil {
				return nil, false
			}
			return a.Add(a, b), ok1 && ok2
		}
	case "to_real":
		if len(e.list) == 2 {
			return parseRat(e.list[1])
		}
	}
	return nil, false
}

func parseBits(a string) (uint64, int) {
	if strings.HasPrefix(a, "#b") {
		v, _ := strconv.ParseUint(a[2:], 2, 64)
		return v, len(a) - 2
	}
	if strings.HasPrefix(a, "#x") {
		v, _ := strconv.ParseUint(a[2:], 16, 64)
		return v, 4 * (len(a) - 2)
	}
	return 0, 0
}

func parseValue(e *sexp) ModelVal {
	if !e.isList {
		switch e.atom {
		case "true":
			return ModelVal{IsBool: true, B: true}
		case "false":
			return ModelVal{IsBool: true, B: false}
		}
	}
	if e.isList && len(e.list) > 0 {
		switch e.list[0].atom {
		case "fp":
			if len(e.list) == 4 {
				sg, _ := parseBits(e.list[1].atom)
				ex, _ := parseBits(e.list[2].atom)
				mt, _ := parseBits(e.list[3].atom)
				return ModelVal{F: math.Float64frombits(sg<<63 | ex<<52 | mt)}
			}
		case "_":
			if len(e.list) >= 2 {
				switch e.list[1].atom {
				case "+zero":
					return ModelVal{F: 0}
				case "-zero":
					return ModelVal{F: math.Copysign(0, -1)}
				case "+oo":
					return ModelVal{F: math.Inf(1)}
				case "-oo":
					return ModelVal{F: math.Inf(-1)}
				case "NaN":
					return ModelVal{F: math.NaN()}
				}
			}
		case "root-obj":
			return ModelVal{Inexact: true, F: math.NaN()}
		}
	}
	r, exact := parseRat(e)
	if r == nil {
		return ModelVal{Inexact: true, F: math.NaN()}
	}
	f, fexact := r.Float64()
	return ModelVal{R: r, F: f, Inexact: !exact, FInexact: !fexact}
}

// RunExternal decides a script with another solver binary (cross-check).
func RunExternal(bin string, args []string, script string, timeout time.Duration) (Result, string) {
	cmd := exec.Command(bin, args...)
	cmd.Stdin = strings.NewReader(script)
	done := make(chan struct{})
	var out []byte
	var err error
	go func() {
		out, err = cmd.CombinedOutput()
		close(done)
	}()
	select {
	case <-done:
	case <-time.After(timeout):
		if cmd.Process != nil {
			cmd.Process.Kill()
		}
		<-done
		return Unknown, "timeout"
	}
	_ = err
	txt := strings.TrimSpace(string(out))
	if strings.Contains(txt, "(error") {
		return Unknown, txt
	}
	for _, l := range strings.Split(txt, "\n") {
		switch strings.TrimSpace(l) {
		case "sat":
			return Sat, txt
		case "unsat":
			return Unsat, txt
		case "unknown":
			return Unknown, txt
		}
	}
	return Unknown, txt
}
