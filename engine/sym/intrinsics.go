package sym

import (
	"fmt"
	"go/token"
	"go/types"
	"math"
	"math/rand"
	"strconv"
	"strings"

	"gosym/smt"

	"golang.org/x/tools/go/ssa"
)

const maxInsertionSort = 12

// ConcreteDraw is the deterministic draw pattern selected by verifrt.SetDrawMode (same formula as the native side).
func ConcreteDraw(mode int, seed int64, k int) float64 {
	if mode == 1 {
		return float64((seed*7+int64(k)*13)%8) / 8
	}
	return float64((seed*3+int64(k)*5+4)%8) / 8
}

type randStream struct {
	seed int64
	k    int
}

func (in *Interp) draw(seed int64, st *randStream) Value {
	name := fmt.Sprintf("draw[%d][%d]", seed, st.k)
	st.k++
	v := in.C.Var(name, smt.SNum)
	in.P.Hint(name, 0.25)
	in.P.AssumeFact(in, in.C.Le(in.C.Num(0), v))
	in.P.AssumeFact(in, in.C.Lt(v, in.C.Num(1)))
	return v
}

func toGo(v Value) interface{} {
	switch x := v.(type) {
	case string, int64, bool, float64:
		return x
	case Iface:
		if x.T == nil {
			return nil
		}
		return toGo(x.V)
	case *smt.Term:
		return "<sym>"
	case *Opaque:
		return "<" + x.Desc + ">"
	}
	return "<" + Describe(v, 3) + ">"
}

func (in *Interp) variadic(v Value) []Value {
	s, ok := v.(Slice)
	if !ok || s.Arr == nil {
		return nil
	}
	out := make([]Value, s.Len)
	for i := range out {
		out[i] = s.Arr.V.(*ArrayV).E[s.Off+i]
	}
	return out
}

func (in *Interp) sprintf(format string, args []Value) string {
	g := make([]interface{}, len(args))
	for i, a := range args {
		g[i] = toGo(a)
		if n, ok := g[i].(int64); ok {
			g[i] = int(n)
		}
	}
	return fmt.Sprintf(format, g...)
}

func (in *Interp) stringsOf(v Value) []string {
	s := v.(Slice)
	out := make([]string, s.Len)
	for i := range out {
		out[i] = s.Arr.V.(*ArrayV).E[s.Off+i].(string)
	}
	return out
}

func (in *Interp) stringSlice(ss []string) Value {
	sl := in.makeSlice(types.Typ[types.String], len(ss), len(ss), "strings")
	for i, s := range ss {
		sl.Arr.V.(*ArrayV).E[i] = s
	}
	return sl
}

func (in *Interp) lessBool(v Value, why string) bool {
	switch b := v.(type) {
	case bool:
		return b
	case *smt.Term:
		return in.P.DecideBool(in, b, why)
	}
	panic(fmt.Sprintf("engine: less returned %T", v))
}

// insertionSort is the algorithm the standard library uses for n <= 12 (sort.Sort, sort.Slice,
// slices.Sort) and for n <= 20 in the stable variants.
func (in *Interp) insertionSort(n int, less func(i, j int) bool, swap func(i, j int)) {
	for i := 1; i < n; i++ {
		for j := i; j > 0 && less(j, j-1); j-- {
			swap(j, j-1)
		}
	}
}

func (in *Interp) sortSliceValue(x Value, less Value, limit int, site ssa.Instruction) {
	ifc := x.(Iface)
	s := ifc.V.(Slice)
	if s.Len > limit {
		panic(Unsupported{fmt.Sprintf("sort of %d elements (bound %d)", s.Len, limit)})
	}
	if s.Len < 2 {
		return
	}
	arr := s.Arr.V.(*ArrayV)
	in.insertionSort(s.Len, func(i, j int) bool {
		return in.lessBool(in.Call(less, []Value{int64(i), int64(j)}, site), "sort less")
	}, func(i, j int) {
		in.noteSliceWrite(s, site)
		arr.E[s.Off+i], arr.E[s.Off+j] = arr.E[s.Off+j], arr.E[s.Off+i]
	})
}

func (in *Interp) sortInterface(data Value, limit int, site ssa.Instruction) {
	ifc := data.(Iface)
	if ifc.T == nil {
		in.runtimePanic("nil sort.Interface", site)
	}
	meth := func(name string) Value {
		ms := in.Prog.MethodSets.MethodSet(ifc.T)
		for i := 0; i < ms.Len(); i++ {
			if ms.At(i).Obj().Name() == name {
				return in.Prog.MethodValue(ms.At(i))
			}
		}
		panic("engine: sort.Interface method " + name + " missing on " + ifc.T.String())
	}
	lenF, lessF, swapF := meth("Len"), meth("Less"), meth("Swap")
	n := int(in.Call(lenF, []Value{ifc.V}, site).(int64))
	if n > limit {
		panic(Unsupported{fmt.Sprintf("sort of %d elements (bound %d)", n, limit)})
	}
	in.insertionSort(n, func(i, j int) bool {
		return in.lessBool(in.Call(lessF, []Value{ifc.V, int64(i), int64(j)}, site), "sort.Interface Less")
	}, func(i, j int) {
		in.Call(swapF, []Value{ifc.V, int64(i), int64(j)}, site)
	})
}

func (in *Interp) sortOrdered(v Value, site ssa.Instruction) {
	s := v.(Slice)
	if s.Len > maxInsertionSort {
		panic(Unsupported{fmt.Sprintf("sort of %d elements (bound %d)", s.Len, maxInsertionSort)})
	}
	if s.Len < 2 {
		return
	}
	arr := s.Arr.V.(*ArrayV)
	in.insertionSort(s.Len, func(i, j int) bool {
		a, b := arr.E[s.Off+i], arr.E[s.Off+j]
		if af, ok := a.(float64); ok && math.IsNaN(af) {
			if bf, ok := b.(float64); ok && math.IsNaN(bf) {
				return false
			}
			return true
		}
		return in.lessBool(in.binop(token.LSS, a, b, nil, site), "sort ordered")
	}, func(i, j int) {
		in.noteSliceWrite(s, site)
		arr.E[s.Off+i], arr.E[s.Off+j] = arr.E[s.Off+j], arr.E[s.Off+i]
	})
}

func (in *Interp) expOf(x Value) Value {
	switch f := x.(type) {
	case float64:
		return math.Exp(f)
	case *smt.Term:
		c := in.C
		e := c.UF("exp", f)
		p := in.P
		p.AssumeFact(in, c.Lt(c.Num(0), e))
		p.AssumeFact(in, c.Le(c.Add(c.Num(1), f), e))
		p.AssumeFact(in, c.BEq(c.Eq(f, c.Num(0)), c.Eq(e, c.Num(1))))
		p.AssumeFact(in, c.BEq(c.Lt(f, c.Num(0)), c.Lt(e, c.Num(1))))
		for _, o := range in.expApps {
			if o.arg == f {
				continue
			}
			oe := c.UF("exp", o.arg)
			p.AssumeFact(in, c.BEq(c.Lt(f, o.arg), c.Lt(e, oe)))
		}
		in.expApps = append(in.expApps, expApp{f})
		return e
	}
	panic("engine: exp of non-number")
}

type expApp struct{ arg *smt.Term }

func (in *Interp) minmax(a, b Value, isMax bool) Value {
	af, aok := a.(float64)
	bf, bok := b.(float64)
	if aok && bok {
		if isMax {
			return math.Max(af, bf)
		}
		return math.Min(af, bf)
	}
	if (aok && nonFinite(af)) || (bok && nonFinite(bf)) {
		panic(Unsupported{"math.Max/Min of a non-finite and a symbolic operand"})
	}
	x, y := in.num(a), in.num(b)
	if isMax {
		return unwrapNum(in.C.Ite(in.C.Lt(x, y), y, x))
	}
	return unwrapNum(in.C.Ite(in.C.Lt(y, x), y, x))
}

// intrinsic intercepts calls that the engine models natively. ok=false means "execute the SSA body".
func (in *Interp) intrinsic(fn *ssa.Function, fi *fnInfo, args []Value, site ssa.Instruction) (Value, bool) {
	name := fi.fullName
	if fi.inScope {
		if i := strings.Index(name, "zz_verifrt."); i >= 0 && !strings.Contains(name, "$") {
			return in.verifrt(name[i+len("zz_verifrt."):], args, site)
		}
		return nil, false
	}
	switch name {
	case "math.Abs":
		switch f := args[0].(type) {
		case float64:
			return math.Abs(f), true
		case *smt.Term:
			return unwrapNum(in.C.Abs(f)), true
		}
	case "math.Floor":
		switch f := args[0].(type) {
		case float64:
			return math.Floor(f), true
		case *smt.Term:
			return unwrapNum(in.C.Floor(f)), true
		}
	case "math.Ceil":
		switch f := args[0].(type) {
		case float64:
			return math.Ceil(f), true
		case *smt.Term:
			return unwrapNum(in.C.Neg(in.C.Floor(in.C.Neg(f)))), true
		}
	case "math.Trunc":
		switch f := args[0].(type) {
		case float64:
			return math.Trunc(f), true
		case *smt.Term:
			c := in.C
			return unwrapNum(c.Ite(c.Lt(f, c.Num(0)), c.Neg(c.Floor(c.Neg(f))), c.Floor(f))), true
		}
	case "math.Round":
		switch f := args[0].(type) {
		case float64:
			return math.Round(f), true
		case *smt.Term:
			return unwrapNum(in.C.Round(f)), true
		}
	case "math.Max":
		return in.minmax(args[0], args[1], true), true
	case "math.Min":
		return in.minmax(args[0], args[1], false), true
	case "math.Exp":
		return in.expOf(args[0]), true
	case "math.Pow":
		x, ok1 := args[0].(float64)
		y, ok2 := args[1].(float64)
		if ok1 && ok2 {
			return math.Pow(x, y), true
		}
		panic(Unsupported{"math.Pow with a symbolic argument"})
	case "math.Sqrt", "math.Log":
		if x, ok := args[0].(float64); ok {
			if name == "math.Sqrt" {
				return math.Sqrt(x), true
			}
			return math.Log(x), true
		}
		panic(Unsupported{name + " with a symbolic argument"})
	case "math.IsNaN":
		switch f := args[0].(type) {
		case float64:
			return math.IsNaN(f), true
		case *smt.Term:
			if in.C.Mode == smt.REAL {
				return false, true
			}
			return unwrapBool(in.C.Not(in.C.Eq(f, f))), true
		}
	case "math.IsInf":
		switch f := args[0].(type) {
		case float64:
			return math.IsInf(f, int(args[1].(int64))), true
		case *smt.Term:
			if in.C.Mode == smt.REAL {
				return false, true
			}
		}
	case "fmt.Errorf":
		return Iface{T: opaqueErrorType, V: &Opaque{Desc: "error: " + in.sprintf(args[0].(string), in.variadic(args[1]))}}, true
	case "fmt.Sprintf":
		return in.sprintf(args[0].(string), in.variadic(args[1])), true
	case "fmt.Sprint":
		parts := []string{}
		for _, a := range in.variadic(args[0]) {
			parts = append(parts, fmt.Sprint(toGo(a)))
		}
		return strings.Join(parts, " "), true
	case "fmt.Println", "fmt.Printf", "fmt.Print", "log.Println", "log.Printf", "log.Print":
		return Tuple{int64(0), Iface{}}, true
	case "strconv.Itoa":
		return strconv.Itoa(int(args[0].(int64))), true
	case "strings.Compare":
		return int64(strings.Compare(args[0].(string), args[1].(string))), true
	case "strings.HasPrefix":
		return strings.HasPrefix(args[0].(string), args[1].(string)), true
	case "strings.HasSuffix":
		return strings.HasSuffix(args[0].(string), args[1].(string)), true
	case "strings.Contains":
		return strings.Contains(args[0].(string), args[1].(string)), true
	case "strings.TrimSpace":
		return strings.TrimSpace(args[0].(string)), true
	case "strings.ToLower":
		return strings.ToLower(args[0].(string)), true
	case "strings.EqualFold":
		return strings.EqualFold(args[0].(string), args[1].(string)), true
	case "strings.Join":
		return strings.Join(in.stringsOf(args[0]), args[1].(string)), true
	case "strings.Split":
		return in.stringSlice(strings.Split(args[0].(string), args[1].(string))), true
	case "sort.Slice":
		in.sortSliceValue(args[0], args[1], maxInsertionSort, site)
		return nil, true
	case "sort.SliceStable":
		in.sortSliceValue(args[0], args[1], 20, site)
		return nil, true
	case "sort.Sort":
		in.sortInterface(args[0], maxInsertionSort, site)
		return nil, true
	case "sort.Stable":
		in.sortInterface(args[0], 20, site)
		return nil, true
	case "sort.Float64s", "sort.Ints", "sort.Strings":
		in.sortOrdered(args[0], site)
		return nil, true
	case "math/rand.NewSource":
		return Iface{T: opaqueErrorType, V: &randStream{seed: args[0].(int64)}}, true
	case "math/rand.New":
		st := args[0].(Iface).V.(*randStream)
		return Pointer{O: in.newObj(&randStream{seed: st.seed}, "rand.Rand")}, true
	case "(*math/rand.Rand).Float64":
		st := args[0].(Pointer).O.V.(*randStream)
		return in.draw(st.seed, st), true
	case "github.com/mitchellh/mapstructure.Decode":
		return in.mapstructureDecode(args[0], args[1], site), true
	case "(*sync.Map).Load", "(*sync.Map).Store", "(*sync.Map).LoadOrStore", "(*sync.Map).Delete", "(*sync.Map).LoadAndDelete":
		return in.syncMapOp(name[len("(*sync.Map)."):], args, site), true
	case "(*sync.Mutex).Lock", "(*sync.Mutex).Unlock", "(*sync.RWMutex).Lock", "(*sync.RWMutex).Unlock", "(*sync.RWMutex).RLock", "(*sync.RWMutex).RUnlock":
		// one request at a time in the engine: locks are no-ops (interleavings are outside the encoding; see C10)
		return nil, true
	}
	if strings.HasPrefix(name, "time.") || strings.HasPrefix(name, "os.") || (strings.HasPrefix(name, "math/rand.") && !strings.Contains(name, "New")) {
		panic(Unsupported{"nondeterminism source " + name})
	}
	return nil, false
}

// ---------------------------------------------------------------------------------------
// verifrt

func (in *Interp) verifrt(name string, args []Value, site ssa.Instruction) (Value, bool) {
	c, p := in.C, in.P
	if in.conc != nil {
		if r, ok := in.verifrtConcrete(name, args); ok {
			return r, true
		}
	}
	switch name {
	case "Observe", "ObserveS":
		return nil, true
	case "Float":
		v := c.Var(args[0].(string), smt.SNum)
		if c.Mode == smt.FP {
			p.AssumeFact(in, c.Le(c.Abs(v), c.Num(float64(1<<40))))
		}
		return v, true
	case "FloatIn":
		v := c.Var(args[0].(string), smt.SNum)
		lo, hi := args[1].(float64), args[2].(float64)
		if lo > hi {
			panic(Infeasible{"empty range for " + args[0].(string)})
		}
		p.Hint(args[0].(string), (lo+hi)/2)
		p.AssumeFact(in, c.Le(c.Num(lo), v))
		p.AssumeFact(in, c.Le(v, c.Num(hi)))
		return v, true
	case "SymBool":
		return c.Var(args[0].(string), smt.SBool), true
	case "Bool":
		if v, ok := p.Choices[args[0].(string)]; ok {
			return v.(bool), true // same name, same value (as natively)
		}
		if f, ok := in.Fixed[args[0].(string)]; ok {
			p.Choices[args[0].(string)] = f == "true"
			return f == "true", true
		}
		k := p.Choose(2, args[0].(string))
		p.Choices[args[0].(string)] = k == 1
		return k == 1, true
	case "IntRange":
		lo, hi := args[1].(int64), args[2].(int64)
		if v, ok := p.Choices[args[0].(string)]; ok {
			return v.(int64), true
		}
		if f, ok := in.Fixed[args[0].(string)]; ok {
			n, _ := strconv.Atoi(f)
			if int64(n) < lo || int64(n) > hi {
				panic(Infeasible{"fixed value outside range"})
			}
			p.Choices[args[0].(string)] = int64(n)
			return int64(n), true
		}
		k := p.Choose(int(hi-lo+1), args[0].(string))
		p.Choices[args[0].(string)] = lo + int64(k)
		return lo + int64(k), true
	case "OneOf":
		ch := in.variadic(args[1])
		if v, ok := p.Choices[args[0].(string)]; ok {
			return v.(string), true
		}
		if f, ok := in.Fixed[args[0].(string)]; ok {
			for _, c := range ch {
				if c.(string) == f {
					p.Choices[args[0].(string)] = f
					return f, true
				}
			}
			panic(Infeasible{"fixed value is not a choice"})
		}
		k := p.Choose(len(ch), args[0].(string))
		p.Choices[args[0].(string)] = ch[k].(string)
		return ch[k], true
	case "Assume":
		p.Assume(in, args[0], in.site(site))
		return nil, true
	case "Assert":
		p.Assert(in, args[0].(string), args[1])
		return nil, true
	case "Reach":
		p.Reached[args[0].(string)] = true
		return nil, true
	case "KnownFinding":
		p.KnownFinding(args[0].(string), args[1])
		return nil, true
	case "And":
		return in.andV(args[0], args[1]), true
	case "Or":
		return in.notV(in.andV(in.notV(args[0]), in.notV(args[1]))), true
	case "Not":
		return in.notV(args[0]), true
	case "Implies":
		return in.notV(in.andV(args[0], in.notV(args[1]))), true
	case "Iff":
		return in.equal(args[0], args[1]), true
	case "IteF":
		switch cnd := args[0].(type) {
		case bool:
			if cnd {
				return args[1], true
			}
			return args[2], true
		case *smt.Term:
			return unwrapNum(c.Ite(cnd, in.num(args[1]), in.num(args[2]))), true
		}
	case "Branch":
		switch b := args[0].(type) {
		case bool:
			return b, true
		case *smt.Term:
			return p.DecideBool(in, b, in.site(site)), true
		}
	case "Tier":
		return in.tier, true
	case "Thorough":
		return in.tier == "thorough", true
	case "Pick":
		if in.tier == "thorough" {
			return args[1], true
		}
		return args[0], true
	case "Symbolic":
		return true, true
	case "RaceMode":
		return false, true
	case "SetDrawMode":
		in.drawMode = int(args[0].(int64))
		return nil, true
	case "SymbolicSeed":
		if in.symSeeds == nil {
			in.symSeeds = map[int64]bool{}
		}
		in.symSeeds[args[0].(int64)] = true
		return nil, true
	case "Generators":
		seed := args[0].(int64)
		st := &randStream{seed: seed}
		var real *rand.Rand
		return &Native{Name: "generator", Fn: func(in *Interp, _ []Value) Value {
			if in.drawMode < 0 {
				// the real PRNG of the toolchain (translator validation on the repository's example requests)
				if real == nil {
					real = rand.New(rand.NewSource(seed))
				}
				return real.Float64()
			}
			if in.drawMode > 0 && !in.symSeeds[seed] {
				k := st.k
				st.k++
				return ConcreteDraw(in.drawMode, seed, k)
			}
			return in.draw(seed, st)
		}}, true
	case "MapOrder":
		in.mapOrder = int(args[0].(int64))
		return nil, true
	case "Epoch":
		in.epoch++
		in.trackWrites = true
		in.Writes = nil
		return nil, true
	case "SharedWrites":
		n := 0
		for _, w := range in.Writes {
			if !w.Owned {
				n++
			}
		}
		return int64(n), true
	case "OwnedWrites":
		n := 0
		for _, w := range in.Writes {
			if w.Owned {
				n++
			}
		}
		return int64(n), true
	case "Own":
		in.markOwned(args[0], map[interface{}]bool{})
		return nil, true
	case "Snapshot":
		return in.snapshot(args[0], map[interface{}]Value{}), true
	case "Same":
		return in.deepEqual(args[0], args[1], map[[2]interface{}]bool{}), true
	case "DeepEqual":
		return in.deepEqual(args[0], args[1], map[[2]interface{}]bool{}), true
	case "Note":
		p.Notes = append(p.Notes, Describe(args[0], 0))
		return nil, true
	case "Caps":
		// capacity of a slice handed in as interface (diagnostics)
		if s, ok := args[0].(Iface).V.(Slice); ok {
			return int64(s.Cap), true
		}
		return int64(0), true
	}
	return nil, false
}

func (in *Interp) notV(v Value) Value {
	switch b := v.(type) {
	case bool:
		return !b
	case *smt.Term:
		return unwrapBool(in.C.Not(b))
	}
	panic("engine: Not on non-bool")
}

func (in *Interp) markOwned(v Value, seen map[interface{}]bool) {
	switch x := v.(type) {
	case Pointer:
		if x.O == nil || seen[x.O] {
			return
		}
		seen[x.O] = true
		x.O.Owner = 1
		in.markOwned(x.O.V, seen)
	case Slice:
		if x.Arr == nil || seen[x.Arr] {
			return
		}
		seen[x.Arr] = true
		x.Arr.Owner = 1
		in.markOwned(x.Arr.V, seen)
	case *MapV:
		if x == nil || seen[x] {
			return
		}
		seen[x] = true
		x.Owner = 1
		for _, k := range x.Keys {
			in.markOwned(x.M[mapKey(k)], seen)
		}
	case Iface:
		in.markOwned(x.V, seen)
	case *StructV:
		for _, f := range x.F {
			in.markOwned(f, seen)
		}
	case *ArrayV:
		for _, f := range x.E {
			in.markOwned(f, seen)
		}
	}
}

// snapshot deep-copies the value graph (following pointers, slices and maps).
func (in *Interp) snapshot(v Value, memo map[interface{}]Value) Value {
	switch x := v.(type) {
	case Pointer:
		if x.O == nil {
			return x
		}
		if m, ok := memo[x.O]; ok {
			return Pointer{O: m.(Pointer).O, Path: x.Path}
		}
		no := &Obj{ID: -x.O.ID, Label: "snapshot"}
		memo[x.O] = Pointer{O: no}
		no.V = in.snapshot(x.O.V, memo)
		return Pointer{O: no, Path: x.Path}
	case Slice:
		if x.Arr == nil {
			return x
		}
		arr := x.Arr.V.(*ArrayV)
		na := &ArrayV{E: make([]Value, x.Len)}
		for i := 0; i < x.Len; i++ {
			na.E[i] = in.snapshot(arr.E[x.Off+i], memo)
		}
		return Slice{Arr: &Obj{V: na, Label: "snapshot"}, Off: 0, Len: x.Len, Cap: x.Len}
	case *MapV:
		if x == nil {
			return x
		}
		if m, ok := memo[x]; ok {
			return m
		}
		nm := &MapV{M: map[interface{}]Value{}}
		memo[x] = nm
		for _, k := range x.Keys {
			nm.Set(k, in.snapshot(x.M[mapKey(k)], memo))
		}
		return nm
	case Iface:
		return Iface{T: x.T, V: in.snapshot(x.V, memo)}
	case *StructV:
		n := &StructV{F: make([]Value, len(x.F))}
		for i, f := range x.F {
			n.F[i] = in.snapshot(f, memo)
		}
		return n
	case *ArrayV:
		n := &ArrayV{E: make([]Value, len(x.E))}
		for i, f := range x.E {
			n.E[i] = in.snapshot(f, memo)
		}
		return n
	case Tuple:
		n := make(Tuple, len(x))
		for i, f := range x {
			n[i] = in.snapshot(f, memo)
		}
		return n
	}
	return v
}

// deepEqual is reflect.DeepEqual-like structural equality; float leaves give equality terms.
func (in *Interp) deepEqual(a, b Value, seen map[[2]interface{}]bool) Value {
	switch x := a.(type) {
	case Pointer:
		y, ok := b.(Pointer)
		if !ok {
			return false
		}
		if x.O == nil || y.O == nil {
			return x.O == nil && y.O == nil
		}
		k := [2]interface{}{x.O, y.O}
		if seen[k] {
			return true
		}
		seen[k] = true
		return in.deepEqual(loadPath(x.O.V, x.Path), loadPath(y.O.V, y.Path), seen)
	case Slice:
		y, ok := b.(Slice)
		if !ok {
			return false
		}
		if (x.Arr == nil) != (y.Arr == nil) || x.Len != y.Len {
			return false
		}
		var acc Value = true
		for i := 0; i < x.Len; i++ {
			acc = in.andV(acc, in.deepEqual(x.Arr.V.(*ArrayV).E[x.Off+i], y.Arr.V.(*ArrayV).E[y.Off+i], seen))
			if acc == false {
				return false
			}
		}
		return acc
	case *MapV:
		y, ok := b.(*MapV)
		if !ok {
			return false
		}
		if (x == nil) != (y == nil) {
			return false
		}
		if x == nil {
			return true
		}
		if len(x.Keys) != len(y.Keys) {
			return false
		}
		var acc Value = true
		for _, k := range x.Keys {
			yv, ok := y.M[mapKey(k)]
			if !ok {
				return false
			}
			acc = in.andV(acc, in.deepEqual(x.M[mapKey(k)], yv, seen))
			if acc == false {
				return false
			}
		}
		return acc
	case Iface:
		y, ok := b.(Iface)
		if !ok {
			return false
		}
		if x.T == nil || y.T == nil {
			return x.T == nil && y.T == nil
		}
		if !types.Identical(x.T, y.T) {
			return false
		}
		return in.deepEqual(x.V, y.V, seen)
	case *StructV:
		y, ok := b.(*StructV)
		if !ok || len(x.F) != len(y.F) {
			return false
		}
		var acc Value = true
		for i := range x.F {
			acc = in.andV(acc, in.deepEqual(x.F[i], y.F[i], seen))
			if acc == false {
				return false
			}
		}
		return acc
	case *ArrayV:
		y, ok := b.(*ArrayV)
		if !ok || len(x.E) != len(y.E) {
			return false
		}
		var acc Value = true
		for i := range x.E {
			acc = in.andV(acc, in.deepEqual(x.E[i], y.E[i], seen))
			if acc == false {
				return false
			}
		}
		return acc
	case Tuple:
		y, ok := b.(Tuple)
		if !ok || len(x) != len(y) {
			return false
		}
		var acc Value = true
		for i := range x {
			acc = in.andV(acc, in.deepEqual(x[i], y[i], seen))
		}
		return acc
	case *ssa.Function, *Closure, *Native:
		return a == b
	case *Opaque:
		_, ok := b.(*Opaque)
		return ok
	case float64:
		if yf, ok := b.(float64); ok {
			return x == yf || (math.IsNaN(x) && math.IsNaN(yf))
		}
	}
	return in.equal(a, b)
}

// syncMapOp models sync.Map as a plain map attached to the sync.Map object (one request at a time in the
// engine). A Store/Delete on a map that outlives the current epoch is recorded as a write to shared state.
func (in *Interp) syncMapOp(op string, args []Value, site ssa.Instruction) Value {
	recv := args[0].(Pointer)
	if recv.O == nil {
		panic(GoPanic{Val: "nil pointer dereference (sync.Map)"})
	}
	key := fmt.Sprint(recv.O.ID, recv.Path)
	if in.syncMaps == nil {
		in.syncMaps = map[string]*MapV{}
	}
	m := in.syncMaps[key]
	if m == nil {
		m = &MapV{ID: -1, M: map[interface{}]Value{}, Epoch: recv.O.Epoch, Owner: recv.O.Owner}
		in.syncMaps[key] = m
	}
	write := func() {
		if in.trackWrites && (m.Epoch < in.epoch || m.Owner != 0) {
			in.Writes = append(in.Writes, WriteEvent{Site: in.site(site), Label: "sync.Map", Owned: m.Owner != 0})
		}
	}
	switch op {
	case "Load":
		v, ok := m.Get(args[1])
		if !ok {
			return Tuple{Iface{}, false}
		}
		return Tuple{v, true}
	case "Store":
		write()
		m.Set(args[1], args[2])
		return nil
	case "LoadOrStore":
		if v, ok := m.Get(args[1]); ok {
			return Tuple{v, true}
		}
		write()
		m.Set(args[1], args[2])
		return Tuple{args[2], false}
	case "Delete":
		if _, ok := m.Get(args[1]); ok {
			write()
		}
		m.Delete(args[1])
		return nil
	case "LoadAndDelete":
		v, ok := m.Get(args[1])
		if !ok {
			return Tuple{Iface{}, false}
		}
		write()
		m.Delete(args[1])
		return Tuple{v, true}
	}
	panic(Unsupported{"sync.Map." + op})
}
