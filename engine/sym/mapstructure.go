package sym

import "golang.org/x/tools/go/ssa"

func (in *Interp) mapstructureDecode(src, dst Value, site ssa.Instruction) Value {
	panic(Unsupported{"mapstructure.Decode (model not yet available)"})
}
