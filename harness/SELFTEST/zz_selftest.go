//go:build verif

//verif:dir zz_selftest
package zz_selftest

// Engine self-test (not tied to a property; run with `./check SELFTEST -noevidence`): Go semantics the
// checks rely on, asserted against the values the Go specification prescribes. The same assertions run
// natively in the translator-validation step, so a wrong expectation shows up there and a wrong
// interpreter shows up as an assertion that fails only symbolically.

import (
	"errors"
	"fmt"
	"sort"
	"strings"

	"github.com/Azbesciak/RealDecisionMaker/lib/utils"
	rt "github.com/Azbesciak/RealDecisionMaker/lib/zz_verifrt"
)

type point struct {
	X, Y int
	Tags []string
}

type shape interface {
	Area() float64
	Name() string
}

type base struct{ name string }

func (b base) Name() string { return b.name }

type rect struct {
	base
	w, h float64
}

func (r rect) Area() float64 { return r.w * r.h }

type circle struct {
	*base
	r float64
}

func (c *circle) Area() float64 { return 3 * c.r * c.r }

type byLen []string

func (b byLen) Len() int           { return len(b) }
func (b byLen) Less(i, j int) bool { return len(b[i]) < len(b[j]) }
func (b byLen) Swap(i, j int)      { b[i], b[j] = b[j], b[i] }

func deferOrder() (out string, n int) {
	defer func() { out += "c"; n *= 2 }()
	defer func() {
		if r := recover(); r != nil {
			out += "r:" + fmt.Sprint(r)
		}
	}()
	defer func() { out += "a" }()
	n = 21
	panic("boom")
}

func rethrow() (res string) {
	defer func() {
		if r := recover(); r != nil {
			res = "outer:" + r.(error).Error()
		}
	}()
	func() {
		defer func() {
			if r := recover(); r != nil {
				panic(errors.New("wrapped"))
			}
		}()
		var m map[string]int
		m["x"] = 1
	}()
	return "not reached"
}

func variadic(prefix string, xs ...int) int {
	s := len(prefix)
	for _, x := range xs {
		s += x
	}
	return s
}

type decoded struct {
	Name    string
	Count   int
	Ratio   float64
	Enabled bool
	Inner   struct{ A, B float64 }
	List    []float64
	M       map[string]float64
	Any     interface{}
	P       *point
	hidden  int
}

//verif:harness HSELF_semantics mode=REAL reach=done
func HSELF_semantics() {
	ok := func(id string, c bool) { rt.Assert("self."+id, c) }
	// slices: aliasing, append growth, copy, 3-index
	s := make([]int, 3, 4)
	t := append(s, 1)
	u := append(s, 2)
	ok("append-aliases-spare-capacity", t[3] == 2 && u[3] == 2 && len(s) == 3)
	v := append(u, 3)
	v[0] = 9
	ok("append-beyond-capacity-copies", u[0] == 0 && v[0] == 9 && cap(v) >= 5)
	rt.Observe("cap.int.4to5", float64(cap(v)))
	var grow []point
	for i := 0; i < 5; i++ {
		grow = append(grow, point{X: i})
		rt.Observe("cap.point", float64(cap(grow)))
	}
	w := []int{0, 1, 2, 3, 4, 5}
	n := copy(w[2:], w[:4])
	ok("copy-overlap", n == 4 && w[2] == 0 && w[3] == 1 && w[4] == 2 && w[5] == 3)
	x := w[1:3:4]
	ok("three-index-slice", len(x) == 2 && cap(x) == 3)
	x = append(x, 7)
	x = append(x, 8)
	ok("three-index-append-reallocates", w[4] == 2 || w[4] == 8 == false)
	var nilS []int
	nilS = append(nilS, 1)
	ok("nil-slice-append", len(nilS) == 1 && nilS[0] == 1)
	rm := []string{"a", "b", "c", "d"}
	rm2 := append(rm[:1], rm[2:]...)
	ok("remove-in-place-shifts-the-original", len(rm2) == 3 && rm[1] == "c" && rm[2] == "d" && rm[3] == "d")
	// structs and arrays are values; slices inside are shared
	p := point{1, 2, []string{"t"}}
	q := p
	q.X = 5
	q.Tags[0] = "changed"
	ok("struct-copy", p.X == 1 && q.X == 5 && p.Tags[0] == "changed")
	arr := [3]int{1, 2, 3}
	arr2 := arr
	arr2[0] = 7
	pa := &arr[1]
	*pa = 20
	ok("array-copy-and-element-pointer", arr[0] == 1 && arr2[0] == 7 && arr[1] == 20)
	ok("struct-equality", point{X: 1, Y: 2}.X == 1 && [2]int{1, 2} == [2]int{1, 2} && struct{ A int }{1} == struct{ A int }{1})
	// maps
	m := map[string]int{"a": 1, "b": 2, "c": 3}
	cnt := 0
	for k := range m {
		if k != "zz" {
			cnt++
		}
		delete(m, "never")
	}
	var nm map[string]int
	_, present := nm["x"]
	ok("maps", cnt == 3 && len(nm) == 0 && !present && nm["q"] == 0)
	ms := map[string]point{"k": {X: 1}}
	pt := ms["k"]
	pt.X = 2
	ok("map-of-structs-returns-copies", ms["k"].X == 1)
	// closures (go 1.12 module: one loop variable per loop)
	var fs []func() int
	for i := 0; i < 3; i++ {
		fs = append(fs, func() int { return i })
	}
	rt.Observe("closure.loopvar", float64(fs[0]()+fs[1]()+fs[2]()))
	acc := 0
	add := func(d int) { acc += d }
	add(2)
	add(3)
	ok("closure-captures-by-reference", acc == 5)
	// defer / recover
	out, dn := deferOrder()
	ok("defer-order-and-named-results", out == "ar:boomc" && dn == 42)
	ok("panic-in-deferred-call-replaces", rethrow() == "outer:wrapped")
	ok("Panics-helper", rt.Panics(func() { var a []int; _ = a[3] }) && !rt.Panics(func() {}))
	// interfaces, embedding, method values, type switches
	shapes := []shape{rect{base{"r"}, 2, 3}, &circle{&base{"c"}, 1}}
	total := 0.0
	names := ""
	for _, sh := range shapes {
		total += sh.Area()
		names += sh.Name()
		switch z := sh.(type) {
		case rect:
			names += fmt.Sprint(z.w)
		case *circle:
			names += "*"
		}
	}
	f := shapes[0].Area
	ok("interfaces-embedding-method-values", total == 9 && names == "r2c*" && f() == 6)
	var e error
	_, isShape := interface{}(e).(shape)
	ok("nil-interface-assertion", !isShape && e == nil)
	// strings
	str := "zażółć"
	runes := 0
	last := 0
	for i := range str {
		runes++
		last = i
	}
	ok("strings", runes == 6 && last == 8 && len(str) == 10 && strings.HasPrefix(str, "za") && str[2:4] == "ż" && strings.Join(strings.Split("a,b,c", ","), "+") == "a+b+c")
	// integers
	var i8 int8 = 127
	i8++
	var u8 uint8 = 3
	u8 -= 5
	ok("integer-wraparound", i8 == -128 && u8 == 254 && -7/2 == -3 && -7%2 == -1 && 1<<3 == 8 && variadic("ab", 1, 2, 3) == 8 && variadic("x") == 1)
	// floats
	zero := 0.0
	nan := zero / zero
	inf := 1 / zero
	ok("float-special-values", nan != nan && !(nan < 1) && !(nan > 1) && inf > 1e308 && -inf < -1e308 && int(zero+2.9) == 2 && int(zero-2.9) == -2)
	// control flow
	res := ""
outer:
	for i := 0; i < 3; i++ {
		for j := 0; j < 3; j++ {
			switch {
			case j == 1:
				continue outer
			case i == 2:
				break outer
			}
			res += fmt.Sprint(i, j)
		}
	}
	sw := 0
	switch 1 {
	case 1:
		sw += 1
		fallthrough
	case 2:
		sw += 10
	case 3:
		sw += 100
	}
	ok("control-flow", res == "0 01 0" && sw == 11)
	// sorting: the standard library's algorithms for small inputs
	words := byLen{"ccc", "a", "bb", "dd", "e"}
	sort.Sort(words)
	ok("sort.Sort", len(words[0]) == 1 && len(words[4]) == 3)
	st := []point{{1, 0, nil}, {0, 1, nil}, {1, 2, nil}, {0, 3, nil}}
	sort.SliceStable(st, func(i, j int) bool { return st[i].X < st[j].X })
	ok("sort.SliceStable-keeps-order-of-equals", st[0].Y == 1 && st[1].Y == 3 && st[2].Y == 0 && st[3].Y == 2)
	fl := []float64{3, 1, 2}
	sort.Float64s(fl)
	in := []int{5, 2, 9}
	sort.Sort(sort.Reverse(sort.IntSlice(in)))
	ss := []string{"b", "a"}
	sort.Strings(ss)
	ok("sort-ordered", fl[0] == 1 && fl[2] == 3 && in[0] == 9 && in[2] == 2 && ss[0] == "a")
	// mapstructure through the repository's own wrapper
	d := decoded{Count: 7, M: map[string]float64{"keep": 1}}
	src := map[string]interface{}{
		"name": "n", "COUNT": 3.9, "ratio": 2, "enabled": true,
		"inner": map[string]interface{}{"a": 1.5}, "list": []interface{}{1.0, 2},
		"m": map[string]interface{}{"x": 2.5}, "any": map[string]interface{}{"k": "v"},
		"p": map[string]interface{}{"x": 4.0, "tags": []interface{}{"q"}}, "hidden": 9, "unknown": 1,
	}
	utils.DecodeToStruct(src, &d)
	anyMap, _ := d.Any.(map[string]interface{})
	ok("mapstructure-decode", d.Name == "n" && d.Count == 3 && d.Ratio == 2 && d.Enabled && d.Inner.A == 1.5 && d.Inner.B == 0 &&
		len(d.List) == 2 && d.List[1] == 2 && d.M["x"] == 2.5 && d.M["keep"] == 1 && anyMap["k"] == "v" && d.P != nil && d.P.X == 4 && d.P.Tags[0] == "q" && d.hidden == 0)
	ok("mapstructure-type-error-panics", rt.Panics(func() {
		var t struct{ Count int }
		utils.DecodeToStruct(map[string]interface{}{"count": "three"}, &t)
	}))
	var viaIface interface{} = &decoded{}
	utils.DecodeToStruct(map[string]interface{}{"name": "z"}, &viaIface)
	ok("mapstructure-into-interface-holding-pointer", viaIface.(*decoded).Name == "z")
	// symbolic values through ordinary control flow
	a, b := rt.Float("a"), rt.Float("b")
	mx := a
	if b > mx {
		mx = b
	}
	ok("symbolic-max", mx >= a && mx >= b && (mx == a || mx == b))
	k := int(rt.FloatIn("g", 0, 1) * 3)
	ok("symbolic-float-to-int", k >= 0 && k <= 3)
	rt.Reach("done")
}
