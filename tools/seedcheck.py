#!/usr/bin/env python3
"""seedcheck.py <seed-dir> <property> [name]
Confirms a seeded breaking change independently (fresh scratch worktree of /repo: suite passes with it, demo
fails with it and passes without it), stores it under /verif/seeded/<name>/, then runs the registered quick
check(s) against /repo with the change applied and records whether it was caught."""
import json, os, re, shutil, subprocess, sys, tempfile, time
seed, prop = sys.argv[1], sys.argv[2]
name = sys.argv[3] if len(sys.argv) > 3 else prop
checks = sys.argv[4].split(',') if len(sys.argv) > 4 else [prop]
env = dict(os.environ, GOFLAGS='-mod=mod', GOPROXY='off', GOSUMDB='off', GOTOOLCHAIN='local')
def sh(cmd, cwd=None, timeout=1800):
    p = subprocess.run(cmd, shell=True, cwd=cwd, env=env, capture_output=True, text=True, timeout=timeout)
    return p.returncode, (p.stdout + p.stderr)
patch = os.path.join(seed, 'SEED', 'patch.diff')
demo = open(os.path.join(seed, 'SEED', 'demo_test.go.txt')).read()
m = re.search(r'(lib/[\w\-/\.]+_test\.go)', demo.split('\n', 3)[0] + '\n' + demo.split('\n', 3)[1] if '\n' in demo else demo)
if not m:
    m = re.search(r'(lib/[\w\-/\.]+_test\.go)', demo)
demo_rel = m.group(1)
out = os.path.join('/verif/seeded', name)
os.makedirs(out, exist_ok=True)
shutil.copy(patch, os.path.join(out, 'patch.diff'))
open(os.path.join(out, 'demo_test.go.txt'), 'w').write(demo)
if os.path.exists(os.path.join(seed, 'SEED', 'README.txt')):
    shutil.copy(os.path.join(seed, 'SEED', 'README.txt'), os.path.join(out, 'README.txt'))
meta = {'property': prop, 'name': name, 'demo_path': demo_rel, 'ran': []}
wt = tempfile.mkdtemp(prefix='seedverify-')
os.rmdir(wt)
rc, o = sh(f'git -C /repo worktree add -q --detach {wt} HEAD'); assert rc == 0, o
try:
    rc, o = sh(f'git apply {patch}', cwd=wt); meta['patch_applies'] = rc == 0
    assert rc == 0, o
    rc, o = sh('go build ./... && go test -vet=off -count=1 ./...', cwd=os.path.join(wt, 'lib')); meta['suite_passes_with_change'] = rc == 0
    meta['ran'].append('cd lib && go build ./... && go test -vet=off -count=1 ./...  (with change) -> rc=%d' % rc)
    demo_abs = os.path.join(wt, demo_rel)
    os.makedirs(os.path.dirname(demo_abs), exist_ok=True)
    body = demo
    # strip a leading non-Go header line if the agent put the path outside a comment
    open(demo_abs, 'w').write(body)
    pkg = './' + os.path.dirname(demo_rel)[len('lib/'):]
    rc, o = sh(f'go test -vet=off -count=1 {pkg}', cwd=os.path.join(wt, 'lib')); meta['demo_fails_with_change'] = rc != 0
    meta['ran'].append(f'go test {pkg} (with change + demo) -> rc={rc}')
    meta['demo_output_with_change'] = o[-600:]
    rc, o = sh(f'git apply -R {patch}', cwd=wt); assert rc == 0, o
    rc, o = sh(f'go test -vet=off -count=1 {pkg}', cwd=os.path.join(wt, 'lib')); meta['demo_passes_without_change'] = rc == 0
    meta['ran'].append(f'go test {pkg} (without change, demo in place) -> rc={rc}')
finally:
    sh(f'git -C /repo worktree remove --force {wt}')
meta['confirmed'] = bool(meta.get('suite_passes_with_change') and meta.get('demo_fails_with_change') and meta.get('demo_passes_without_change'))
# run the checks against /repo with the change applied
st = subprocess.run('git -C /repo status --porcelain', shell=True, capture_output=True, text=True).stdout.strip()
assert st == '', '/repo is not clean: ' + st
rc, o = sh(f'git -C /repo apply {patch}'); assert rc == 0, o
meta['checks'] = {}
try:
    for c in checks:
        t0 = time.time()
        rc, o = sh(f'./check {c} -noevidence', cwd='/verif', timeout=3600)
        viol = [l for l in o.split('\n') if l.startswith('VIOLATION')]
        asserts = [l.strip() for l in o.split('\n') if l.strip().startswith('harness=')]
        meta['checks'][c] = {'exit': rc, 'violation_lines': viol[:6], 'assertions': asserts[:6], 'wall_s': round(time.time() - t0, 1), 'tail': o[-400:] if rc != 1 else ''}
finally:
    sh('git -C /repo checkout -- .')
    shutil.rmtree('/verif/replays', ignore_errors=True)
meta['caught_by'] = [c for c, r in meta['checks'].items() if r['exit'] == 1 and r['violation_lines']]
json.dump(meta, open(os.path.join(out, 'meta.json'), 'w'), indent=1)
print(json.dumps({k: meta[k] for k in ['name', 'confirmed', 'caught_by']}), {c: (r['exit'], r['assertions'][:2]) for c, r in meta['checks'].items()})
