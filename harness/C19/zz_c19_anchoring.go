//go:build verif

//verif:dir logic/biases/anchoring
package anchoring

import (
	"github.com/Azbesciak/RealDecisionMaker/lib/logic/limited-rationality/majority"
	"github.com/Azbesciak/RealDecisionMaker/lib/model"
	"github.com/Azbesciak/RealDecisionMaker/lib/model/reference-criterion"
	"github.com/Azbesciak/RealDecisionMaker/lib/utils"
	vh "github.com/Azbesciak/RealDecisionMaker/lib/zz_vh"
	rt "github.com/Azbesciak/RealDecisionMaker/lib/zz_verifrt"
)

//verif:bounds C19 HC19_anchoring: Anchoring.Apply with the majority listener: A=2 (quick) / A<=3 with K=1 (thorough) known alternatives (last optionally not considered), K<=2 criteria (gain/cost), 1..2 anchoring alternatives (considered or not; quick tier: two only with K=1) with symbolic positive coefficients, ideal / nadir reference point, linear gain and loss functions with symbolic slope and intercept or the exponential function (e^x uninterpreted) or identically zero functions, inline applier (applyOnNotConsidered on/off) and new-criterion applier, bounding off / non-negative; JSON-shaped props through the mapstructure model; all criterion values symbolic
//verif:outside C19: more than two anchoring alternatives and K>2 (products of symbolic coefficients: nonlinear arithmetic); the reference-criterion strategies other than the default inside the new-criterion applier (C18 checks the providers)
//verif:assume C19: REAL arithmetic; ties between coefficient-weighted values may be broken either way (the statement does not say how): the oracle only requires the chosen value to be a best/worst one

func c19manager() reference_criterion.ReferenceCriteriaManager {
	return *reference_criterion.NewReferenceCriteriaManager([]reference_criterion.ReferenceCriterionFactory{
		&reference_criterion.ImportanceRatioReferenceCriterionManager{},
		&reference_criterion.RandomUniformReferenceCriterionManager{RandomFactory: rt.Generators},
		&reference_criterion.RandomWeightedReferenceCriterionManager{RandomFactory: rt.Generators},
	})
}

func c19bias() *Anchoring {
	return NewAnchoring(
		[]AnchoringEvaluator{&LinearAnchoringEvaluator{}, &ExpFromZeroAnchoringEvaluator{}},
		[]ReferencePointsEvaluator{&IdealReferenceAlternativeEvaluator{}, &NadirReferenceAlternativeEvaluator{}},
		[]AnchoringApplier{&InlineAnchoringApplier{}, NewNewCriterionAnchoringApplier(rt.Generators, c19manager())},
	)
}

type c19fun struct {
	kind string
	a, b float64 // linear: a x + b ; exp: multiplier a, alpha b
}

func c19pickFun(name string) (c19fun, map[string]interface{}) {
	return c19fixedFun(name, rt.OneOf(name+".function", "linear", "zero", "exp"))
}

func c19fixedFun(name, kind string) (c19fun, map[string]interface{}) {
	switch kind {
	case "linear":
		f := c19fun{kind: "linear", a: rt.FloatIn(name+".a", -2, 2), b: rt.FloatIn(name+".b", -1, 1)}
		return f, map[string]interface{}{"function": "linear", "params": map[string]interface{}{"a": f.a, "b": f.b}}
	case "zero":
		return c19fun{kind: "zero"}, map[string]interface{}{"function": "linear", "params": map[string]interface{}{"a": float64(0), "b": float64(0)}}
	}
	f := c19fun{kind: "exp", a: rt.FloatIn(name+".multiplier", -2, 2), b: rt.FloatIn(name+".alpha", -2, 2)}
	return f, map[string]interface{}{"function": "expFromZero", "params": map[string]interface{}{"multiplier": f.a, "alpha": f.b}}
}

func (f c19fun) eval(x float64) float64 {
	switch f.kind {
	case "linear":
		if f.a == 0 && f.b == 0 {
			return 0
		}
		return f.a*x + f.b
	case "zero":
		return 0
	}
	e := utils.ExpFromZeroFunction{Alpha: f.b, Multiplier: f.a}
	return e.Evaluate(x)
}

func c19all(d *model.DecisionMakingParams) []model.AlternativeWithCriteria {
	return append(append([]model.AlternativeWithCriteria{}, d.ConsideredAlternatives...), d.NotConsideredAlternatives...)
}

//verif:harness HC19_anchoring mode=REAL reach=ideal,nadir,inline,newCriterion,gain-branch,loss-branch,zero-functions,two-anchors,cost,degenerate-range ob_timeout_ms=60000
func HC19_anchoring() {
	K := rt.IntRange("K", 1, 2)
	maxA := 2
	if rt.Thorough() && K == 1 {
		maxA = 3 // thorough: a third alternative with one criterion (A=3, K=2 with nine function pairs did not finish in 45 min)
	}
	A := rt.IntRange("A", 2, maxA)
	crit := vh.Criteria(K, "")
	if crit[0].Type == model.Cost {
		rt.Reach("cost")
	}
	known := vh.Alternatives("", vh.AltIds[:A], crit)
	chose := append([]string{}, vh.AltIds[:A]...)
	if rt.Bool("last-not-considered") {
		chose = chose[:A-1]
	}
	if len(chose) > 1 && rt.Bool("chose-listed-descending") {
		for i, j := 0, len(chose)-1; i < j; i, j = i+1, j-1 {
			chose[i], chose[j] = chose[j], chose[i]
		}
	}
	w := vh.Weights("w.", crit, 0, 4) // includes importances below 0.01: the applier raises them
	mp := majority.MajorityHeuristicParams{Weights: w}
	current := vh.Params(known, chose, crit, mp)
	var listener model.BiasListener = &majority.MajorityBiasListener{}
	nAnch := 1
	if rt.Thorough() || K == 1 {
		nAnch = rt.IntRange("anchors", 1, 2)
	}
	var anchors []interface{}
	var coefs []float64
	var anchorIds []string
	for i := 0; i < nAnch; i++ {
		id := vh.AltIds[A-1-i] // the last known alternatives (possibly the not-considered one)
		cf := rt.FloatIn("coefficient."+id, 0.125, 4)
		anchors = append(anchors, map[string]interface{}{"alternative": id, "coefficient": cf})
		coefs = append(coefs, cf)
		anchorIds = append(anchorIds, id)
	}
	if nAnch == 2 {
		rt.Reach("two-anchors")
	}
	var gainF, lossF c19fun
	var gainP, lossP map[string]interface{}
	if rt.Thorough() {
		gainF, gainP = c19pickFun("gain")
		lossF, lossP = c19pickFun("loss")
	} else {
		// quick tier: four function pairs instead of nine
		switch rt.OneOf("functions", "linear-linear", "zero-zero", "exp-linear", "linear-exp") {
		case "linear-linear":
			gainF, gainP = c19fixedFun("gain", "linear")
			lossF, lossP = c19fixedFun("loss", "linear")
		case "zero-zero":
			gainF, gainP = c19fixedFun("gain", "zero")
			lossF, lossP = c19fixedFun("loss", "zero")
		case "exp-linear":
			gainF, gainP = c19fixedFun("gain", "exp")
			lossF, lossP = c19fixedFun("loss", "linear")
		default:
			gainF, gainP = c19fixedFun("gain", "linear")
			lossF, lossP = c19fixedFun("loss", "exp")
		}
	}
	refKind := rt.OneOf("referencePoints", "ideal", "nadir")
	rt.Reach(refKind)
	applier := rt.OneOf("applier", "inline", "newCriterion")
	rt.Reach(applier)
	onNotConsidered := false
	ap := map[string]interface{}{}
	if applier == "inline" {
		onNotConsidered = rt.Bool("applyOnNotConsidered")
		ap["applyOnNotConsidered"] = onNotConsidered
	} else {
		ap["randomSeed"] = float64(95)
	}
	nonNeg := rt.Bool("disallowNegativeValues")
	if nonNeg {
		ap["disallowNegativeValues"] = true
	}
	props := map[string]interface{}{"anchoringAlternatives": anchors, "gain": gainP, "loss": lossP,
		"referencePoints": map[string]interface{}{"function": refKind}, "applier": map[string]interface{}{"function": applier, "params": ap}}
	var bp model.BiasProps = props
	snap := rt.Snapshot(current)
	origCrit := append(append(model.Criteria{}, crit...), model.Criterion{Id: "dropped-earlier", Type: model.Gain})
	original := vh.Params(vh.Alternatives("orig.", vh.AltIds[:A], origCrit), chose, origCrit, majority.MajorityHeuristicParams{Weights: vh.Weights("orig.w.", origCrit, 0.125, 4)}) // differs from current: must not be used
	res := c19bias().Apply(original, current, &bp, &listener)
	rt.Assert("C19.received-state-untouched", rt.Same(snap, current))
	rep := res.Props.(AnchoringResult)
	after := res.DMP

	// 1. the reference point: per criterion a coefficient-weighted best (ideal) / worst (nadir) value among the anchoring alternatives
	rt.Assert("C19.one-reference-point", len(rep.ReferencePoints) == 1)
	if len(rep.ReferencePoints) != 1 {
		return
	}
	ref := rep.ReferencePoints[0]
	for ci := range crit {
		c := crit[ci]
		rv, ok := ref.Criteria[c.Id]
		rt.Assert("C19.reference-point-has-every-criterion", ok)
		isOne := false
		for i, id := range anchorIds {
			vi := vh.FindAlt(known, id).Criteria[c.Id]
			dominates := true
			for j, jd := range anchorIds {
				vj := vh.FindAlt(known, jd).Criteria[c.Id]
				var atLeastAsGood bool
				if c.Type == model.Cost {
					// cost: smaller value per unit of coefficient is better: v_i / c_i <= v_j / c_j  <=>  v_i c_j <= v_j c_i
					atLeastAsGood = vi*coefs[j] <= vj*coefs[i]
				} else {
					atLeastAsGood = vi*coefs[i] >= vj*coefs[j]
				}
				if refKind == "nadir" {
					if c.Type == model.Cost {
						atLeastAsGood = vi*coefs[j] >= vj*coefs[i]
					} else {
						atLeastAsGood = vi*coefs[i] <= vj*coefs[j]
					}
				}
				dominates = rt.And(dominates, atLeastAsGood)
			}
			isOne = rt.Or(isOne, rt.And(rv == vi, dominates))
		}
		rt.Assert("C19.reference-point-is-coefficient-weighted-best-or-worst", isOne)
	}

	// 2. mapped differences of every known alternative
	all := c19all(current)
	mapped := map[string]map[string]float64{}
	for _, a := range all {
		mapped[a.Id] = map[string]float64{}
		for ci := range crit {
			c := crit[ci]
			mn, mx := vh.RangeOf(&c, all)
			scale := 0.0
			if rt.Branch(mx-mn != 0) {
				scale = 1 / (mx - mn)
			} else {
				rt.Reach("degenerate-range")
			}
			sd := (vh.Signed(&c, a.Criteria[c.Id]) - vh.Signed(&c, ref.Criteria[c.Id])) * scale
			var m float64
			if rt.Branch(sd > 0) {
				rt.Reach("gain-branch")
				m = gainF.eval(sd)
			} else {
				rt.Reach("loss-branch")
				m = -lossF.eval(-sd)
			}
			mapped[a.Id][c.Id] = m
		}
	}
	rt.Assert("C19.differences-for-every-known-alternative", len(rep.PerReferencePointsDifferences) == len(all))
	for _, d := range rep.PerReferencePointsDifferences {
		rt.Assert("C19.one-difference-per-reference-point", len(d.ReferencePointsDifference) == 1)
		if len(d.ReferencePointsDifference) != 1 {
			continue
		}
		for _, c := range crit {
			rt.Assert("C19.mapped-difference", d.ReferencePointsDifference[0].Coefficients[c.Id] == mapped[d.Alternative.Id][c.Id])
		}
	}
	zero := gainF.kind == "zero" && lossF.kind == "zero"
	if zero {
		rt.Reach("zero-functions")
	}

	// 3. appliers
	allAfter := c19all(after)
	rt.Assert("C19.split-unchanged", len(after.ConsideredAlternatives) == len(chose) && len(allAfter) == A)
	if applier == "inline" {
		ir := rep.ApplierResult.(InlineAnchoringApplierResult)
		rt.Assert("C19.inline.criteria-unchanged", rt.DeepEqual(after.Criteria, current.Criteria))
		rt.Assert("C19.inline.parameters-unchanged", rt.DeepEqual(after.MethodParameters, current.MethodParameters))
		for _, a := range all {
			na := vh.FindAlt(allAfter, a.Id)
			touched := vh.Contains(chose, a.Id) || onNotConsidered
			for ci := range crit {
				c := crit[ci]
				mn, mx := vh.RangeOf(&c, all)
				exp := a.Criteria[c.Id] + (mx-mn)*mapped[a.Id][c.Id]
				if nonNeg {
					exp = rt.IteF(exp < 0, 0, exp)
				}
				if touched {
					rt.Assert("C19.inline.value-is-shifted-by-range-times-mean-difference", na.Criteria[c.Id] == exp)
					if zero && !nonNeg {
						rt.Assert("C19.inline.zero-functions-leave-values-unchanged", na.Criteria[c.Id] == a.Criteria[c.Id])
					}
				} else {
					rt.Assert("C19.inline.not-considered-untouched", na.Criteria[c.Id] == a.Criteria[c.Id])
				}
			}
		}
		// reported differences: exactly new - old, for the considered alternatives (all known ones when applied to all)
		want := len(chose)
		if onNotConsidered {
			want = A
		}
		rt.Assert("C19.inline.reports-applied-differences", len(ir.AppliedDifferences) == want)
		for _, d := range ir.AppliedDifferences {
			oa, na := vh.FindAlt(all, d.Id), vh.FindAlt(allAfter, d.Id)
			for _, c := range crit {
				rt.Assert("C19.inline.reported-difference-is-new-minus-old", d.Criteria[c.Id] == na.Criteria[c.Id]-oa.Criteria[c.Id])
			}
		}
		return
	}
	// new-criterion applier: one criterion per reference point
	nr := rep.ApplierResult.(NewCriterionAnchoringApplierResult)
	rt.Assert("C19.new.one-criterion-per-reference-point", len(after.Criteria) == K+1 && len(nr.AddedCriteria) == 1)
	if len(after.Criteria) != K+1 || len(nr.AddedCriteria) != 1 {
		return
	}
	nc := after.Criteria[K]
	prev := *crit.Names()
	rt.Assert("C19.new.id-unused", !vh.Contains(prev, nc.Id) && nr.AddedCriteria[0].Id == nc.Id)
	rc := nr.ReferenceCriterion
	rt.Assert("C19.new.reference-criterion-exists", vh.Contains(prev, rc.Id))
	if !vh.Contains(prev, rc.Id) {
		return
	}
	var rcc model.Criterion
	for _, c := range crit {
		if c.Id == rc.Id {
			rcc = c
		}
	}
	mn, mx := vh.RangeOf(&rcc, all)
	// importance: the listener's ranking weights (majority: the weights), raised so that the smallest is >= 0.01, normalised to sum 1
	minW := w[crit[0].Id]
	for _, c := range crit {
		minW = rt.IteF(w[c.Id] < minW, w[c.Id], minW)
	}
	shift := rt.IteF(minW < 0.01, 0.01-minW, 0)
	total := 0.0
	for _, c := range crit {
		total += w[c.Id] + shift
	}
	for _, a := range all {
		na := vh.FindAlt(allAfter, a.Id)
		sum := 0.0
		// ascending importance order (the ranking's order) - real addition is order-insensitive
		for _, c := range crit {
			sum += mapped[a.Id][c.Id] * ((w[c.Id] + shift) / total)
		}
		exp := mn + (mx-mn)/2 + (mx-mn)/2*sum
		if nonNeg {
			exp = rt.IteF(exp < 0, 0, exp)
		}
		v, ok := na.Criteria[nc.Id]
		rt.Assert("C19.new.every-alternative-gets-a-value", ok && len(na.Criteria) == K+1)
		rt.Assert("C19.new.value-is-midrange-plus-halfrange-times-weighted-mean", v == exp)
		rt.Assert("C19.new.report-carries-the-value", nr.AddedCriteria[0].AlternativesValues[a.Id] == v)
		for _, c := range prev {
			rt.Assert("C19.new.existing-values-untouched", na.Criteria[c] == a.Criteria[c])
		}
	}
}
