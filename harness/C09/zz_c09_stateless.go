//go:build verif

//verif:dir zz_pipeline
package zz_pipeline

import (
	"github.com/Azbesciak/RealDecisionMaker/lib/logic/biases/criteria-concealment"
	"github.com/Azbesciak/RealDecisionMaker/lib/logic/biases/fatigue"
	"github.com/Azbesciak/RealDecisionMaker/lib/logic/biases/preference-reversal"
	"github.com/Azbesciak/RealDecisionMaker/lib/model"
	rt "github.com/Azbesciak/RealDecisionMaker/lib/zz_verifrt"
)

//verif:bounds C09 HC09_stateless: every method x (no bias | one bias variant) through the real MakeDecision with the service registries; A=3 known alternatives (considered all - so internal slices are shared - or all-but-one), K=2, JSON-shaped request whose slices carry the spare capacity encoding/json leaves; heuristics with currentChoice absent / taken from choseToMake / known-but-not-considered; two concrete value families, symbolic weights, ratios and draws
//verif:bounds C09 HC09_history: request X, then a different request Y (other method or bias), then X again on the same registries: first and third responses equal, the first response untouched by the later calls
//verif:outside C09: bias sequences longer than 1 (quick) / 2 (thorough) for the report-faithfulness clauses; histories longer than 3

func c09reportFaithful(tag string, s *BiasStep) {
	switch p := s.Props.(type) {
	case fatigue.FatigueResult:
		rt.Assert(tag+".fatigue-report-is-state-handed-on", rt.DeepEqual(p.ConsideredAlternatives, s.After.ConsideredAlternatives) && rt.DeepEqual(p.NotConsideredAlternatives, s.After.NotConsideredAlternatives))
	case criteria_concealment.CriteriaConcealmentResult:
		for _, ac := range p.AddedCriteria {
			for id, v := range ac.AlternativesValues {
				a := findAlt(s.After, id)
				rt.Assert(tag+".concealment-report-is-state-handed-on", a != nil && a.Criteria[ac.Id] == v)
			}
			n := len(s.After.ConsideredAlternatives) + len(s.After.NotConsideredAlternatives)
			rt.Assert(tag+".concealment-reports-every-alternative", len(ac.AlternativesValues) == n)
		}
	case preference_reversal.PreferenceReversalResult:
		for _, rc := range p.ReversedPreferenceCriteria {
			for id, v := range rc.AlternativesValues {
				a := findAlt(s.After, id)
				rt.Assert(tag+".reversal-report-is-state-handed-on", a != nil && a.Criteria[rc.Id] == v)
			}
		}
	}
}

//verif:harness HC09_stateless mode=REAL reach=answered,rejected-or-error,cc-considered,all-considered,bias-fired
func HC09_stateless() {
	c := ChooseStd(BiasVariants)
	second := "none"
	if rt.Thorough() && c.Variant != "" {
		// thorough tier: a second bias follows, so that "not altered by later stages" has a later bias stage;
		// with two biases the draws follow a fixed pattern and numeric parameters are fixed (shape-level, as in C07 L2)
		second = rt.OneOf("second-bias", "none", "criteriaOmission", "preferenceReversal", "anchoring", "fatigue", "criteriaConcealment")
	}
	if second != "none" {
		rt.SetDrawMode(1)
	}
	dm := c.BuildOpt("", second != "none")
	variants := []string{c.Variant}
	if second != "none" {
		dm.Biases = append(dm.Biases, Bias(second, DefaultPropsOpt(second, dm, "b2.", true)))
		variants = append(variants, second)
	}
	c07known(c.Method, variants)
	snap := rt.Snapshot(dm)
	rt.Own(dm)
	rt.Epoch()
	out := Decide(dm)
	rt.Assert("C09.request-untouched", rt.Same(snap, dm))
	rt.Assert("C09.no-store-into-request-objects", rt.OwnedWrites() == 0)
	if c.CC == "considered" {
		rt.Reach("cc-considered")
	}
	if c.AllConsidered {
		rt.Reach("all-considered")
	}
	if out.Panicked {
		rt.Reach("rejected-or-error")
		// an error produced by the combination is C07's subject; statelessness must hold on that path too
		return
	}
	rt.Reach("answered")
	for i := range out.Rec.Steps {
		s := &out.Rec.Steps[i]
		if s.Panicked {
			continue
		}
		rt.Reach("bias-fired")
		// what the bias reported and handed on is not altered by later stages or by the method
		rt.Assert("C09.bias-report-not-altered-later", rt.Same(s.PropsSnap, s.Props))
		rt.Assert("C09.state-handed-on-not-altered-later", rt.Same(s.AfterSnap, s.After))
		rt.Assert("C09.state-received-not-altered", rt.Same(s.BeforeSnap, s.Before))
		c09reportFaithful("C09", s)
		// the response carries exactly that report
		if i < len(out.Choice.Biases) {
			bp, ok := out.Choice.Biases[i].(model.BiasParams)
			rt.Assert("C09.response-carries-the-report", ok && rt.DeepEqual(bp.Props, s.Props))
		}
	}
	if out.Rec.Evaluated != nil {
		rt.Assert("C09.method-does-not-alter-its-input-state", rt.Same(out.Rec.EvalSnap, out.Rec.Evaluated))
	}
}

//verif:harness HC09_history mode=REAL reach=answered-twice
func HC09_history() {
	c := ChooseStd([]string{"criteriaOmission", "fatigue", "criteriaMixing"})
	other := StdChoice{Method: rt.OneOf("other-method", "weightedSum", "satisfactionHeuristic", "electreIII"), Variant: "criteriaConcealment", CC: "none", AllConsidered: true, Values: 2, Rich: true}
	if other.Method == "satisfactionHeuristic" {
		other.CC = "considered"
	}
	c07known(c.Method, []string{c.Variant})
	x1 := c.Build("")
	out1 := Decide(x1)
	snap1 := rt.Snapshot(out1.Choice)
	rt.Epoch()
	// the intervening request is concrete (fixed draw pattern): its role is to exercise the shared registries
	rt.SetDrawMode(1)
	y := other.BuildOpt("y.", true)
	Decide(y)
	rt.SetDrawMode(0)
	x3 := c.Build("")
	out3 := Decide(x3)
	rt.Assert("C09.earlier-response-untouched-by-later-calls", rt.Same(snap1, out1.Choice))
	rt.Assert("C09.same-verdict-whatever-came-before", out1.Panicked == out3.Panicked)
	if !out1.Panicked && !out3.Panicked {
		rt.Reach("answered-twice")
		rt.Assert("C09.same-response-whatever-came-before", rt.DeepEqual(out1.Choice, out3.Choice))
	}
}

// c09props: the bias entry of a request with only its mandatory properties (rich=false) or with every
// optional property set to a non-default value (rich=true).
func c09props(v string, dm *model.DecisionMaker, rich bool) map[string]interface{} {
	anch := func(applier map[string]interface{}) map[string]interface{} {
		return map[string]interface{}{
			"anchoringAlternatives": []interface{}{map[string]interface{}{"alternative": dm.KnownAlternatives[0].Id, "coefficient": float64(1)}},
			"loss":            map[string]interface{}{"function": "linear", "params": map[string]interface{}{"a": 0.5, "b": float64(0)}},
			"gain":            map[string]interface{}{"function": "linear", "params": map[string]interface{}{"a": 0.25, "b": float64(0)}},
			"referencePoints": map[string]interface{}{"function": "ideal"},
			"applier":         applier,
		}
	}
	switch v {
	case "criteriaOmission":
		if rich {
			return map[string]interface{}{"ratio": 0.5, "min": float64(1), "max": float64(1), "ordering": "random", "randomSeed": float64(5)}
		}
		return map[string]interface{}{"ratio": 0.5}
	case "preferenceReversal":
		if rich {
			return map[string]interface{}{"ratio": 0.5, "min": float64(2), "max": float64(2), "ordering": "strongest"}
		}
		return map[string]interface{}{"ratio": 0.5}
	case "fatigue":
		m := map[string]interface{}{"function": "const", "params": map[string]interface{}{"value": 0.5}}
		if rich {
			m["randomSeed"] = float64(21)
			m["allowedValuesRangeScaling"] = float64(2)
			m["disallowNegativeValues"] = true
		}
		return m
	case "criteriaConcealment":
		if rich {
			return map[string]interface{}{"randomSeed": float64(22), "newCriterionScaling": float64(2), "newCriterionImportance": 0.5,
				"referenceCriterionType": "randomUniform", "newCriterionRandomSeed": float64(3), "disallowNegativeValues": true}
		}
		return map[string]interface{}{}
	case "criteriaMixing":
		if rich {
			return map[string]interface{}{"randomSeed": float64(23), "mixingRatio": 0.25, "referenceCriterionType": "randomUniform", "newCriterionRandomSeed": float64(3)}
		}
		return map[string]interface{}{}
	case "anchoring":
		if rich {
			return anch(map[string]interface{}{"function": "inline", "params": map[string]interface{}{"applyOnNotConsidered": true}})
		}
		return anch(map[string]interface{}{"function": "inline"})
	case "anchoring/newCriterion":
		if rich {
			return anch(map[string]interface{}{"function": "newCriterion", "params": map[string]interface{}{"randomSeed": float64(7),
				"referenceCriterionType": "randomUniform", "newCriterionRandomSeed": float64(3), "newCriterionImportance": 0.5}})
		}
		return anch(map[string]interface{}{"function": "newCriterion", "params": map[string]interface{}{}})
	}
	panic("unknown variant " + v)
}

// c09methodParams strips (rich=false) or sets (rich=true) the optional parameters of the method.
func c09methodParams(dm *model.DecisionMaker, rich bool) {
	mp := dm.MethodParameters
	for _, k := range []string{"randomSeed", "randomAlternativesOrdering", "drawResolution", "currentChoice", "electreDistillation"} {
		delete(mp, k)
	}
	if !rich {
		return
	}
	switch dm.PreferenceFunction {
	case "majorityHeuristic":
		mp["randomSeed"], mp["randomAlternativesOrdering"], mp["drawResolution"], mp["currentChoice"] = float64(11), true, "random", dm.ChoseToMake[0]
	case "aspectEliminationHeuristic":
		mp["randomSeed"], mp["randomAlternativesOrdering"] = float64(12), true
	case "satisfactionHeuristic":
		mp["randomSeed"], mp["randomAlternativesOrdering"], mp["currentChoice"] = float64(13), true, dm.ChoseToMake[0]
	case "electreIII":
		mp["electreDistillation"] = map[string]interface{}{"a": -0.25, "b": 0.5}
	}
}

//verif:bounds C09 HC09_history_defaults: request X carrying only mandatory parameters (method and one bias variant), then the same request with every optional parameter of the method, the bias, its applier, reference-criterion strategy, ordering and bounding set to a non-default value, then X again on the same registries: first and third responses equal (a default that is kept in a shared object and overwritten by the decoder shows here); every method x every bias variant, considered = all / all-but-one, fixed draw pattern, symbolic method weights where the method has them
//verif:harness HC09_history_defaults mode=REAL reach=answered-twice,rich-answer-differs
func HC09_history_defaults() {
	method := rt.OneOf("method", Methods...)
	variant := rt.OneOf("bias", BiasVariants...)
	c := StdChoice{Method: method, CC: "none", AllConsidered: !rt.Bool("one-not-considered"), Values: 1}
	rt.SetDrawMode(1)
	c07known(method, []string{variant})
	build := func(rich bool) *model.DecisionMaker {
		dm := c.BuildOpt("", false)
		c09methodParams(dm, rich)
		dm.Biases = []interface{}{Bias(variant, c09props(variant, dm, rich))}
		return dm
	}
	out1 := Decide(build(false))
	snap1 := rt.Snapshot(out1.Choice)
	outY := Decide(build(true))
	out3 := Decide(build(false))
	rt.Assert("C09.earlier-response-untouched-by-later-calls", rt.Same(snap1, out1.Choice))
	rt.Assert("C09.same-verdict-whatever-came-before", out1.Panicked == out3.Panicked)
	if !out1.Panicked && !out3.Panicked {
		rt.Reach("answered-twice")
		rt.Assert("C09.same-response-whatever-came-before", rt.DeepEqual(out1.Choice, out3.Choice))
		if !outY.Panicked && !rt.DeepEqual(out1.Choice, outY.Choice) {
			rt.Reach("rich-answer-differs")
		}
	}
}
